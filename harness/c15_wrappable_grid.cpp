// C15  Scrolling (wrappable) grid: surviving cells keep their value, entering cells read the
//      empty value of the translation that brought them in, reported offset = accumulated
//      offset modulo the grid size -- after ANY sequence of translations and writes.
//
// Oracle: executable reference model that knows nothing about circular buffers: a dictionary
// from absolute map coordinates to values restricted to the window (window origin + the values
// at origin + x for every logical x).  translate(off, empty) moves the origin by off, a cell
// whose absolute coordinate was inside the old window keeps its value, every other cell of the
// new window gets `empty`.  Direction convention from test/containers/test_grid.cpp:
// new(x) = old(x + off).  Reported offset = origin mod size (mathematical modulo).
// After every operation ALL cells and getIndexOffsetAlongAxes() are compared.
//
// Workload (case index -> unit, pure function of (tier, seed, index)):
//   exh2d_enum  direct enumeration of every translation sequence (no de-duplication) on 2D grids
//   exh2d_bfs / exh3d_bfs   breadth-first search over copies of the REAL object, de-duplicated on
//               the real object's full state (index offsets + buffer); every distinct state of
//               depth < D is expanded with every translation of the scope
//   random      int / double / std::string cells, grids up to 8 cells per axis, <= 50 translations
//               with |offset| <= 2n interleaved with writes
#include <Eigen/Core>
#include <array>
#include <climits>
#include <memory>
#include <string>
#include <type_traits>
#include <unordered_set>
#include "romea_core_common/containers/grid/WrappableGrid.hpp"
#include "vh.hpp"

using romea::core::Grid;
using romea::core::WrappableGrid;
typedef std::array<int, 3> I3;   // per-axis quantities; unused axes of a 2D grid: n = 1, off = 0

// --------------------------------------------------------------------------------------------
// cell value families: unique ids, one distinct empty value per translation, hostile specials
// --------------------------------------------------------------------------------------------
template<class V> struct Val;
template<> struct Val<int>
{
  static const char * name() {return "int";}
  static int id(uint64_t k) {return static_cast<int>(1000 + k);}
  static int empty(uint64_t k) {return -static_cast<int>(10 + k);}
  static int special(uint64_t k)
  {
    static const int S[] = {0, -1, INT_MIN, INT_MAX, 1};
    return S[k % 5];
  }
  static bool same(int a, int b) {return a == b;}
  static std::string show(int a) {return std::to_string(a);}
  static uint64_t hash(int a) {return static_cast<uint64_t>(static_cast<int64_t>(a));}
};
template<> struct Val<double>
{
  static const char * name() {return "double";}
  static double id(uint64_t k) {return 1000.0 + static_cast<double>(k) + 0.25;}
  static double empty(uint64_t k) {return -(10.0 + static_cast<double>(k)) - 0.5;}
  static double special(uint64_t k)
  {
    static const double S[] = {0.0, -0.0, std::numeric_limits<double>::quiet_NaN(),
      std::numeric_limits<double>::infinity(), 4.9e-324, -1.0};
    return S[k % 6];
  }
  // the grid stores and returns objects: the bit pattern must come back (NaN, -0.0 included)
  static bool same(double a, double b) {return std::memcmp(&a, &b, sizeof a) == 0;}
  static std::string show(double a) {char b[40]; snprintf(b, sizeof b, "%.17g", a); return b;}
  static uint64_t hash(double a) {uint64_t u; std::memcpy(&u, &a, 8); return u;}
};
template<> struct Val<std::string>
{
  static const char * name() {return "string";}
  // half of the ids are longer than the small-string buffer (heap-owning cells)
  static std::string id(uint64_t k)
  {
    std::string s = "id" + std::to_string(k);
    return (k & 1) ? s + "-heap-allocated-payload-" + std::to_string(k * 7919) : s;
  }
  static std::string empty(uint64_t k)
  {
    std::string s = "E" + std::to_string(k);
    return (k & 2) ? s + "-empty-value-longer-than-sso-" + std::to_string(k) : s;
  }
  static std::string special(uint64_t k)
  {
    switch (k % 4) {
      case 0: return std::string();
      case 1: return std::string("a\0b", 3);
      case 2: return std::string(300, 'x');
      default: return " ";
    }
  }
  static bool same(const std::string & a, const std::string & b) {return a == b;}
  static std::string show(const std::string & a)
  {
    return a.size() <= 48 ? a : a.substr(0, 45) + "...(" + std::to_string(a.size()) + ")";
  }
  static uint64_t hash(const std::string & a)
  {
    uint64_t h = 1469598103934665603ULL;
    for (unsigned char ch : a) {h = (h ^ ch) * 1099511628211ULL;}
    return h;
  }
};

// Small integral cells ("other instantiations of the template": byte-sized occupancy cells take
// different code paths in containers, e.g. memset / memcpy specialisations).  The value space is
// split in ids [0, NID), per-translation empties [NID, NID + NEMPTY) and specials above, so that
// histories stay unambiguous as long as fewer than NID ids are alive (the byte types are therefore
// kept to grids of <= 240 cells in the random part; <= 64 cells in the bounded part).
template<class T, unsigned NID, unsigned NEMPTY> struct SmallVal
{
  static T wrap(uint64_t v)
  {
    typename std::make_unsigned<T>::type u = static_cast<typename std::make_unsigned<T>::type>(v);
    T t; std::memcpy(&t, &u, sizeof t); return t;
  }
  static T id(uint64_t k) {return wrap(k % NID);}
  static T empty(uint64_t k) {return wrap(NID + k % NEMPTY);}
  static T special(uint64_t k)
  {
    const uint64_t top = (sizeof(T) == 1 ? 255u : 65535u);
    const uint64_t S[] = {0, top, top - 1, (top + 1) / 2, (top + 1) / 2 - 1, 1};
    return wrap(S[k % 6]);
  }
  static bool same(T a, T b) {return a == b;}
  static std::string show(T a) {return std::to_string(static_cast<int>(a));}
  static uint64_t hash(T a) {return static_cast<uint64_t>(static_cast<int64_t>(a));}
};
template<> struct Val<uint8_t>: SmallVal<uint8_t, 240, 12> {static const char * name() {return "uint8";}};
template<> struct Val<int8_t>: SmallVal<int8_t, 240, 12> {static const char * name() {return "int8";}};
template<> struct Val<char>: SmallVal<char, 240, 12> {static const char * name() {return "char";}};
template<> struct Val<uint16_t>: SmallVal<uint16_t, 60000, 5000> {static const char * name() {return "uint16";}};

template<> struct Val<float>
{
  static const char * name() {return "float";}
  static float id(uint64_t k) {return 1000.0f + static_cast<float>(k % 4000000) + 0.25f;}
  static float empty(uint64_t k) {return -(10.0f + static_cast<float>(k % 4000000)) - 0.5f;}
  static float special(uint64_t k)
  {
    static const float S[] = {0.0f, -0.0f, std::numeric_limits<float>::quiet_NaN(),
      std::numeric_limits<float>::infinity(), 1.4e-45f, -1.0f};
    return S[k % 6];
  }
  static bool same(float a, float b) {return std::memcmp(&a, &b, sizeof a) == 0;}
  static std::string show(float a) {char b[40]; snprintf(b, sizeof b, "%.9g", static_cast<double>(a)); return b;}
  static uint64_t hash(float a) {uint32_t u; std::memcpy(&u, &a, 4); return u;}
};
// 3-byte trivially copyable cell (size not a power of two, no padding)
struct RGB
{
  uint8_t r, g, b;
  bool operator==(const RGB & o) const {return r == o.r && g == o.g && b == o.b;}
};
template<> struct Val<RGB>
{
  static const char * name() {return "rgb3";}
  static RGB id(uint64_t k) {return RGB{static_cast<uint8_t>(k & 255), static_cast<uint8_t>((k >> 8) & 255), static_cast<uint8_t>(1 + (k >> 16) % 100)};}
  static RGB empty(uint64_t k) {return RGB{static_cast<uint8_t>(k & 255), static_cast<uint8_t>((k >> 8) & 255), static_cast<uint8_t>(150 + (k >> 16) % 100)};}
  static RGB special(uint64_t k)
  {
    static const RGB S[] = {{0, 0, 0}, {255, 255, 255}, {0, 255, 0}, {128, 127, 0}};
    return S[k % 4];
  }
  static bool same(const RGB & a, const RGB & b) {return a == b;}
  static std::string show(const RGB & a) {return "(" + std::to_string(a.r) + "," + std::to_string(a.g) + "," + std::to_string(a.b) + ")";}
  static uint64_t hash(const RGB & a) {return a.r + 256u * a.g + 65536u * a.b;}
};

// --------------------------------------------------------------------------------------------
// reference model
// --------------------------------------------------------------------------------------------
template<class V> struct Model
{
  I3 n{{1, 1, 1}};
  int64_t origin[3] = {0, 0, 0};         // absolute map coordinate of logical cell (0,0,0)
  std::vector<V> cell;                   // map value at absolute coordinate origin + x
  std::vector<uint8_t> entered;          // 1: brought into the window by the last translation

  size_t size() const {return static_cast<size_t>(n[0]) * n[1] * n[2];}
  size_t lin(int x, int y, int z) const {return x + static_cast<size_t>(n[0]) * (y + static_cast<size_t>(n[1]) * z);}
  void init(const I3 & n_)
  {
    n = n_; origin[0] = origin[1] = origin[2] = 0;
    cell.assign(size(), V()); entered.assign(size(), 0);
  }
  void write(int x, int y, int z, const V & v)
  {
    cell[lin(x, y, z)] = v;
    std::fill(entered.begin(), entered.end(), 0);
  }
  void fill(const V & v)
  {
    std::fill(cell.begin(), cell.end(), v);
    std::fill(entered.begin(), entered.end(), 0);
  }
  // the window slides by off: logical x now shows absolute (origin + off) + x, i.e. what logical
  // x + off showed before if that was inside the window, else the empty value.
  void translate(const I3 & off, const V & empty)
  {
    static std::vector<V> tmp;             // scratch (single-threaded monitor), not part of the state
    static std::vector<uint8_t> tmpe;
    tmp.resize(size()); tmpe.resize(size());
    for (int z = 0; z < n[2]; ++z) {
      const int64_t oz = static_cast<int64_t>(z) + off[2];
      for (int y = 0; y < n[1]; ++y) {
        const int64_t oy = static_cast<int64_t>(y) + off[1];
        for (int x = 0; x < n[0]; ++x) {
          const int64_t ox = static_cast<int64_t>(x) + off[0];
          const bool in = ox >= 0 && ox < n[0] && oy >= 0 && oy < n[1] && oz >= 0 && oz < n[2];
          const size_t l = lin(x, y, z);
          if (in) {tmp[l] = cell[lin(static_cast<int>(ox), static_cast<int>(oy), static_cast<int>(oz))];} else {
            tmp[l] = empty;
          }
          tmpe[l] = in ? 0 : 1;
        }
      }
    }
    cell.swap(tmp); entered.swap(tmpe);
    for (int a = 0; a < 3; ++a) {origin[a] += off[a];}
  }
  int64_t offset(int a) const
  {
    int64_t m = origin[a] % n[a];
    return m < 0 ? m + n[a] : m;
  }
};

// --------------------------------------------------------------------------------------------
// comparison of the real object with the model
// --------------------------------------------------------------------------------------------
enum {BAD_SURVIVOR = 1, BAD_ENTRANT = 2, BAD_OFFSET = 4};

template<size_t DIM> static typename WrappableGrid<int, DIM>::CellIndexes mk_ci(int x, int y, int z)
{
  typename WrappableGrid<int, DIM>::CellIndexes ci;
  ci[0] = static_cast<size_t>(x); ci[1] = static_cast<size_t>(y);
  if (DIM == 3) {ci[DIM - 1] = static_cast<size_t>(z);}
  return ci;
}
template<size_t DIM> static typename WrappableGrid<int, DIM>::CellIndexesOffset mk_co(const I3 & o)
{
  typename WrappableGrid<int, DIM>::CellIndexesOffset co;
  co[0] = o[0]; co[1] = o[1];
  if (DIM == 3) {co[DIM - 1] = o[2];}
  return co;
}

struct CmpStat
{
  int bad = 0;
  bool had_survivor = false, had_entrant = false;
  I3 cell_s{{0, 0, 0}}, cell_e{{0, 0, 0}};
};

// access: 0 const WrappableGrid&, 1 non-const operator(), 2 through const Grid& (virtual dispatch)
template<class V, size_t DIM>
static CmpStat compare(WrappableGrid<V, DIM> & g, const Model<V> & m, int access)
{
  CmpStat s;
  const WrappableGrid<V, DIM> & cg = g;
  const Grid<V, DIM> & bg = g;
  for (int z = 0; z < m.n[2]; ++z) {
    for (int y = 0; y < m.n[1]; ++y) {
      for (int x = 0; x < m.n[0]; ++x) {
        const auto ci = mk_ci<DIM>(x, y, z);
        const V & got = access == 0 ? cg(ci) : (access == 1 ? g(ci) : bg(ci));
        const size_t l = m.lin(x, y, z);
        const bool ok = Val<V>::same(got, m.cell[l]);
        if (m.entered[l]) {
          s.had_entrant = true;
          if (!ok && !(s.bad & BAD_ENTRANT)) {s.bad |= BAD_ENTRANT; s.cell_e = {{x, y, z}};}
        } else {
          s.had_survivor = true;
          if (!ok && !(s.bad & BAD_SURVIVOR)) {s.bad |= BAD_SURVIVOR; s.cell_s = {{x, y, z}};}
        }
      }
    }
  }
  const auto & off = g.getIndexOffsetAlongAxes();
  for (size_t a = 0; a < DIM; ++a) {
    if (static_cast<int64_t>(off[a]) != m.offset(static_cast<int>(a))) {s.bad |= BAD_OFFSET;}
  }
  return s;
}

static const char * O_SURV = "cells.survivors_keep_value";
static const char * O_ENT = "cells.entrants_read_empty";
static const char * O_OFF = "offset.accumulated_mod_size";
static const char * K_SURV = "surviving_cell_changed";
static const char * K_ENT = "entering_cell_not_blank";
static const char * K_OFF = "offset_not_accumulated";
// cross-application classes (random part)
static const char * O_REF_OFF = "stability.bound_offset_reference";
static const char * O_REF_CELL = "stability.bound_cell_reference";
static const char * O_SNAP = "stability.value_snapshot";
static const char * O_CLONE = "value_semantics.copy_behaves_as_original";
static const char * O_SIBLING = "interference.sibling_objects_leave_grid_unchanged";
static const char * O_PLAIN = "base_grid.cell_reads_last_write";
static const char * K_PLAIN = "base_grid_cell_mismatch";
static const char * K_STALE = "stale_reference";
static const char * K_COPY = "copy_diverges";
static const char * K_INTERFERENCE = "cross_object_interference";
static int g_op_class = 0;                         // numeric parameter of every violation, see random_case
static const char * g_kind_override = nullptr;     // set while a comparison belongs to one of the classes above
static const char * g_oracle_override = nullptr;

// cheap per-case tallies of passed oracle evaluations (flushed into Ctx::margins at the end of the
// case, a std::function per evaluation would dominate the exhaustive loops)
struct Tally
{
  uint64_t surv = 0, ent = 0, off = 0;
  uint64_t transitions = 0, after_nonzero_offset = 0, neg_z_survivors = 0, below_minus_n = 0,
    multiple_of_n = 0, beyond_n = 0, writes = 0, write_survived_translation = 0;
  uint64_t violations = 0;
  void flush(vh::Ctx & c)
  {
    c.margins[O_SURV].n += surv; c.margins[O_ENT].n += ent; c.margins[O_OFF].n += off;
    c.count("transitions", transitions);
    c.count("translation_after_nonzero_offset", after_nonzero_offset);
    c.count("negative_z_with_survivors", neg_z_survivors);
    c.count("offset_below_minus_n", below_minus_n);
    c.count("offset_nonzero_multiple_of_n", multiple_of_n);
    c.count("offset_magnitude_above_n", beyond_n);
    if (writes) {c.count("writes", writes);}
    if (write_survived_translation) {c.count("written_cell_survived_translation", write_survived_translation);}
  }
};

// feature bookkeeping for one translation about to be applied to a state with model m
template<class V>
static void note_translation(Tally & t, const Model<V> & m, const I3 & off, int dim)
{
  ++t.transitions;
  bool nz = false, below = false, mult = false, beyond = false, all_overlap = true;
  for (int a = 0; a < dim; ++a) {
    if (m.offset(a) != 0) {nz = true;}
    if (off[a] < -m.n[a]) {below = true;}
    if (off[a] != 0 && off[a] % m.n[a] == 0) {mult = true;}
    if (std::abs(off[a]) > m.n[a]) {beyond = true;}
    if (std::abs(off[a]) >= m.n[a]) {all_overlap = false;}
  }
  if (nz) {++t.after_nonzero_offset;}
  if (below) {++t.below_minus_n;}
  if (mult) {++t.multiple_of_n;}
  if (beyond) {++t.beyond_n;}
  if (dim == 3 && off[2] < 0 && all_overlap) {++t.neg_z_survivors;}
}

struct OpRec
{
  char type;       // 'T' translate, 'W' write, 'F' fill (setValue), 'C' copy / move / assignment of the grid
  I3 a;            // offsets or cell
  std::string v;   // empty value / written value (shown)
  bool default_empty = false;
};

static std::string ops_json(const std::vector<OpRec> & ops)
{
  std::string o = "[";
  size_t first = ops.size() > 70 ? ops.size() - 70 : 0;
  for (size_t i = first; i < ops.size(); ++i) {
    if (i != first) {o += ",";}
    vh::J j;
    j.s("op", ops[i].type == 'T' ? "translate" : ops[i].type == 'W' ? "write" : ops[i].type == 'C' ? "copy_or_move" : "setValue");
    if (ops[i].type != 'F' && ops[i].type != 'C') {j.arr(ops[i].type == 'T' ? "off" : "cell", ops[i].a.begin(), ops[i].a.end());}
    j.s(ops[i].type == 'T' ? "empty" : "value", ops[i].v);
    if (ops[i].default_empty) {j.boolean("default_argument", true);}
    o += j.str();
  }
  return o + "]";
}

// full witness: the history, the expected and the actual logical content
template<class V, size_t DIM>
static std::string witness_json(
  const char * unit, WrappableGrid<V, DIM> & g, const Model<V> & m, const std::vector<OpRec> & ops,
  const CmpStat & s)
{
  vh::J j;
  j.s("unit", unit).s("cell_type", Val<V>::name()).f("dim", static_cast<int>(DIM));
  j.arr("cells_per_axis", m.n.begin(), m.n.begin() + DIM);
  j.f("ops_total", static_cast<uint64_t>(ops.size())).raw("ops_tail", ops_json(ops));
  const auto & off = g.getIndexOffsetAlongAxes();
  std::string eo = "[", go = "[";
  for (size_t a = 0; a < DIM; ++a) {
    if (a) {eo += ","; go += ",";}
    eo += std::to_string(m.offset(static_cast<int>(a))); go += std::to_string(off[a]);
  }
  j.raw("offset_expected", eo + "]").raw("offset_reported", go + "]");
  auto cellw = [&](const char * k, const I3 & cidx) {
      const V & got = g(mk_ci<DIM>(cidx[0], cidx[1], cidx[2]));
      vh::J w;
      w.arr("cell", cidx.begin(), cidx.begin() + DIM).s("expected", Val<V>::show(m.cell[m.lin(cidx[0], cidx[1], cidx[2])]))
      .s("read", Val<V>::show(got));
      j.raw(k, w.str());
    };
  if (s.bad & BAD_SURVIVOR) {cellw("first_bad_survivor", s.cell_s);}
  if (s.bad & BAD_ENTRANT) {cellw("first_bad_entrant", s.cell_e);}
  if (m.size() <= 64) {
    std::string e = "[", r = "[";
    for (int z = 0; z < m.n[2]; ++z) {
      for (int y = 0; y < m.n[1]; ++y) {
        for (int x = 0; x < m.n[0]; ++x) {
          if (e.size() > 1) {e += ","; r += ",";}
          e += vh::jstr(Val<V>::show(m.cell[m.lin(x, y, z)]));
          r += vh::jstr(Val<V>::show(g(mk_ci<DIM>(x, y, z))));
        }
      }
    }
    j.raw("expected_cells_x_fastest", e + "]").raw("read_cells_x_fastest", r + "]");
  }
  return j.str();
}

// records the verdicts of one comparison; returns true when everything matched
template<class V, size_t DIM, class History>
static bool verdict(
  vh::Ctx & c, Tally & t, const char * unit, WrappableGrid<V, DIM> & g, const Model<V> & m,
  const CmpStat & s, int n_translations, int n_writes, const I3 & last_off,
  const History & history)
{
  if (!s.bad) {
    if (s.had_survivor) {++t.surv;}
    if (s.had_entrant) {++t.ent;}
    ++t.off;
    return true;
  }
  ++t.violations;
  auto params = [&]() {
      return vh::Params{{"dim", static_cast<double>(DIM)}, {"nx", m.n[0]}, {"ny", m.n[1]}, {"nz", m.n[2]},
        {"translations", n_translations}, {"writes", n_writes},
        {"offx", last_off[0]}, {"offy", last_off[1]}, {"offz", last_off[2]}, {"op_class", g_op_class}};
    };
  auto wit = [&]() {return witness_json<V, DIM>(unit, g, m, history(), s);};
  if (g_kind_override) {c.expect(g_oracle_override, false, g_kind_override, params, wit); return false;}
  if (s.bad & BAD_SURVIVOR) {c.expect(O_SURV, false, K_SURV, params, wit);} else if (s.had_survivor) {++t.surv;}
  if (s.bad & BAD_ENTRANT) {c.expect(O_ENT, false, K_ENT, params, wit);} else if (s.had_entrant) {++t.ent;}
  if (s.bad & BAD_OFFSET) {c.expect(O_OFF, false, K_OFF, params, wit);} else {++t.off;}
  return false;
}

// --------------------------------------------------------------------------------------------
// bounded-exhaustive part (int cells)
// --------------------------------------------------------------------------------------------
static std::vector<I3> translations_in_scope(const I3 & n, int dim)
{
  std::vector<I3> T;
  const int lz = dim == 3 ? n[2] + 1 : 0;
  for (int oz = -lz; oz <= lz; ++oz) {
    for (int oy = -(n[1] + 1); oy <= n[1] + 1; ++oy) {
      for (int ox = -(n[0] + 1); ox <= n[0] + 1; ++ox) {T.push_back({{ox, oy, oz}});}
    }
  }
  return T;
}

template<class V, size_t DIM> struct Node
{
  WrappableGrid<V, DIM> g;
  Model<V> m;
  int parent = -1, t = -1;
  explicit Node(const I3 & n)
  : g(mk_ci<DIM>(n[0], n[1], n[2]))
  {
    m.init(n);
  }
};

template<class V, size_t DIM> static Node<V, DIM> root_state(const I3 & n, uint64_t id_base)
{
  Node<V, DIM> r(n);
  for (int z = 0; z < n[2]; ++z) {
    for (int y = 0; y < n[1]; ++y) {
      for (int x = 0; x < n[0]; ++x) {
        const V v = Val<V>::id(id_base + r.m.lin(x, y, z));
        r.g(mk_ci<DIM>(x, y, z)) = v;
        r.m.write(x, y, z, v);
      }
    }
  }
  return r;
}

// distinct empty value per translation of a history (depth 1..3)
template<class V> static V empty_of_depth(int d) {return Val<V>::empty(static_cast<uint64_t>(d));}

template<class V> static std::vector<OpRec> path_ops(const std::vector<I3> & path)
{
  std::vector<OpRec> ops;
  ops.push_back({'W', {{0, 0, 0}}, "all cells, unique ids in x-fastest order", false});
  for (size_t i = 0; i < path.size(); ++i) {
    ops.push_back({'T', path[i], Val<V>::show(empty_of_depth<V>(static_cast<int>(i) + 1)), false});
  }
  return ops;
}

template<class V, size_t DIM> static std::string state_key(WrappableGrid<V, DIM> & g)
{
  std::string k;
  const auto & o = g.getIndexOffsetAlongAxes();
  for (size_t a = 0; a < DIM; ++a) {k.push_back(static_cast<char>(o[a]));}
  const std::vector<V> & b = g.getBuffer();
  k.append(reinterpret_cast<const char *>(b.data()), b.size() * sizeof(V));
  return k;
}

struct Unit
{
  enum Kind {ENUM2D, BFS2D, BFS3D} kind;
  I3 n;
  int depth;
  int t1;        // ENUM2D: index of the first translation
  int K, k;      // BFS: chunk k of K of the last expansion
  int vt;        // cell type of the unit: 0 int, 1 uint8_t
};
static const char * vt_name(int vt) {return vt == 0 ? "int" : "uint8";}

static std::string unit_name(const Unit & u)
{
  char b[160];
  if (u.kind == Unit::ENUM2D) {
    snprintf(b, sizeof b, "exh2d_enum %s n=(%d,%d) depth<=%d first_translation#%d", vt_name(u.vt), u.n[0], u.n[1],
      u.depth, u.t1);
  } else {
    snprintf(b, sizeof b, "%s %s n=(%d,%d,%d) depth<=%d chunk %d/%d", u.kind == Unit::BFS2D ? "exh2d_bfs" : "exh3d_bfs",
      vt_name(u.vt), u.n[0], u.n[1], u.n[2], u.depth, u.k, u.K);
  }
  return b;
}

// every sequence t1 t2 .. of length <= depth that starts with translation #t1, no de-duplication
template<class V> static void run_enum2d(vh::Ctx & c, const Unit & u, Tally & t)
{
  const std::vector<I3> T = translations_in_scope(u.n, 2);
  const std::string name = unit_name(u);
  const uint64_t id_base = c.seed % 1000;
  const Node<V, 2> root = root_state<V, 2>(u.n, id_base);
  std::vector<Node<V, 2>> lvl(static_cast<size_t>(u.depth) + 1, root);
  std::vector<I3> path;
  uint64_t sequences = 0;
  // iterative depth-first enumeration
  std::vector<size_t> it(static_cast<size_t>(u.depth) + 1, 0);
  int d = 1;
  it[1] = static_cast<size_t>(u.t1);
  size_t end1 = static_cast<size_t>(u.t1) + 1;
  while (d >= 1) {
    const size_t lim = d == 1 ? end1 : T.size();
    if (it[d] >= lim) {--d; if (d >= 1) {++it[d];} continue;}
    const I3 & off = T[it[d]];
    Node<V, 2> & s = lvl[d];
    s = lvl[d - 1];
    note_translation(t, s.m, off, 2);
    const V e = empty_of_depth<V>(d);
    s.g.translate(mk_co<2>(off), e);
    s.m.translate(off, e);
    ++sequences;
    const CmpStat st = compare<V, 2>(s.g, s.m, 0);
    path.resize(static_cast<size_t>(d));
    path[d - 1] = off;
    for (int q = 1; q < d; ++q) {path[q - 1] = T[it[q]];}
    const bool ok = verdict<V, 2>(c, t, name.c_str(), s.g, s.m, st, d, 0, off, [&]() {return path_ops<V>(path);});
    if (ok && d < u.depth && t.violations < 40) {++d; it[d] = 0;} else {++it[d];}
  }
  c.count("enum2d_sequences", sequences);
  if (sizeof(V) == 1) {c.count("exh_byte_cells_transitions", sequences);}
}

// breadth-first search over real objects, de-duplicated on (index offsets, buffer).  Layers
// 1..depth-1 are rebuilt by every chunk (cheap); the last expansion is split in K chunks.
template<class V, size_t DIM> static void run_bfs(vh::Ctx & c, const Unit & u, Tally & t)
{
  const int dim = static_cast<int>(DIM);
  const std::vector<I3> T = translations_in_scope(u.n, dim);
  const std::string name = unit_name(u);
  const uint64_t id_base = c.seed % 1000;
  std::vector<std::vector<Node<V, DIM>>> layers(static_cast<size_t>(u.depth));
  layers[0].push_back(root_state<V, DIM>(u.n, id_base));
  Node<V, DIM> s = layers[0][0];
  Tally shadow;    // tallies of the layers recomputed by chunks k > 0 are discarded
  uint64_t states = 0, transitions = 0, frontier_max = 0;
  for (int d = 1; d <= u.depth; ++d) {
    const bool last = d == u.depth;
    const bool mine = last || u.k == 0;     // who reports / counts this expansion
    Tally & tt = mine ? t : shadow;
    std::unordered_set<std::string> seen;
    const std::vector<Node<V, DIM>> & cur = layers[static_cast<size_t>(d) - 1];
    for (size_t i = 0; i < cur.size(); ++i) {
      if (last && static_cast<int>(i % static_cast<size_t>(u.K)) != u.k) {continue;}
      if (mine) {++states;}
      for (size_t ti = 0; ti < T.size(); ++ti) {
        const I3 & off = T[ti];
        s = cur[i];
        note_translation(tt, s.m, off, dim);
        const V e = empty_of_depth<V>(d);
        s.g.translate(mk_co<DIM>(off), e);
        s.m.translate(off, e);
        if (mine) {++transitions;}
        const CmpStat st = compare<V, DIM>(s.g, s.m, 0);
        bool ok;
        if (mine) {
          ok = verdict<V, DIM>(c, tt, name.c_str(), s.g, s.m, st, d, 0, off, [&]() {
                // one history reaching this state (parents are the first-found predecessors)
                std::vector<I3> path(static_cast<size_t>(d));
                path[static_cast<size_t>(d) - 1] = off;
                int idx = static_cast<int>(i);
                for (int q = d - 1; q >= 1; --q) {
                  const Node<V, DIM> & p = layers[static_cast<size_t>(q)][static_cast<size_t>(idx)];
                  path[static_cast<size_t>(q) - 1] = T[static_cast<size_t>(p.t)];
                  idx = p.parent;
                }
                return path_ops<V>(path);
              });
        } else {
          ok = !st.bad;
        }
        if (!last && ok) {
          if (seen.insert(state_key<V, DIM>(s.g)).second) {
            s.parent = static_cast<int>(i); s.t = static_cast<int>(ti);
            layers[static_cast<size_t>(d)].push_back(s);
          }
        }
        if (t.violations >= 40) {break;}
      }
      if (t.violations >= 40) {break;}
    }
    if (!last) {frontier_max = std::max<uint64_t>(frontier_max, layers[static_cast<size_t>(d)].size());}
    if (t.violations >= 40) {break;}
  }
  c.count(DIM == 2 ? "bfs2d_states" : "bfs3d_states", states);
  c.count(DIM == 2 ? "bfs2d_transitions" : "bfs3d_transitions", transitions);
  c.count("states", states);
  if (sizeof(V) == 1) {c.count("exh_byte_cells_transitions", transitions);}
  c.maxi(DIM == 2 ? "bfs2d_largest_frontier" : "bfs3d_largest_frontier", static_cast<double>(frontier_max));
  if (c.verbose) {
    fprintf(stderr, "%s: states expanded %" PRIu64 ", transitions %" PRIu64 ", layer sizes:", name.c_str(), states, transitions);
    for (auto & l : layers) {fprintf(stderr, " %zu", l.size());}
    fprintf(stderr, "\n");
  }
}

// --------------------------------------------------------------------------------------------
// unit lists (deterministic per tier)
// --------------------------------------------------------------------------------------------
static int chunks_for(const I3 & n, int dim, int depth)
{
  // Every chunk rebuilds the layers below the last one, so the number of chunks must stay small
  // against (size of the last frontier) / (size of the layers below).  On the repaired tree layer 1
  // has L1 = prod(2n-1) + prod(n) states (partially overlapping windows + blank grids at every
  // offset) and layer 2 about L1^2 / 2.25 (measured: 3x3x3 -> 1, 152, 10261).
  double T = 1, L1a = 1, L1b = 1;
  for (int a = 0; a < dim; ++a) {T *= 2 * n[a] + 3; L1a *= 2 * n[a] - 1; L1b *= n[a];}
  const double L1 = L1a + L1b;
  int K;
  if (depth >= 3) {
    K = static_cast<int>(L1 / 9.0);                 // ~4 L1 T transitions per chunk, <= 25 % rebuilt
  } else {
    K = std::min(static_cast<int>(L1 * T / 150000.0), static_cast<int>(L1 / 4.0));
  }
  return std::max(1, std::min(K, 64));
}

static std::vector<Unit> build_units(bool thorough)
{
  std::vector<Unit> U;
  auto add_bfs = [&](Unit::Kind kind, const I3 & n, int depth) {
      const int dim = kind == Unit::BFS3D ? 3 : 2;
      const int K = chunks_for(n, dim, depth);
      for (int vt = 0; vt < 2; ++vt) {
        for (int k = 0; k < K; ++k) {U.push_back({kind, n, depth, 0, K, k, vt});}
      }
    };
  // 3D first (the heaviest units get spread over the shards first)
  const int n3 = 3;
  for (int nz = 1; nz <= n3; ++nz) {
    for (int ny = 1; ny <= n3; ++ny) {
      for (int nx = 1; nx <= n3; ++nx) {
        const I3 n{{nx, ny, nz}};
        const bool small = nx <= 2 && ny <= 2 && nz <= 2;
        // quick: depth 3 on grids <= 2 cells per axis, depth 2 on the rest; thorough: depth 3 everywhere
        add_bfs(Unit::BFS3D, n, (thorough || small) ? 3 : 2);
      }
    }
  }
  // 2D de-duplicated search: full scope in both tiers
  for (int ny = 1; ny <= 4; ++ny) {
    for (int nx = 1; nx <= 4; ++nx) {add_bfs(Unit::BFS2D, {{nx, ny, 1}}, 3);}
  }
  // 2D direct enumeration: quick n<=3 depth<=2, thorough n<=4 depth<=3
  const int n2 = thorough ? 4 : 3, d2 = thorough ? 3 : 2;
  for (int ny = 1; ny <= n2; ++ny) {
    for (int nx = 1; nx <= n2; ++nx) {
      const I3 n{{nx, ny, 1}};
      const int nt = static_cast<int>(translations_in_scope(n, 2).size());
      for (int t1 = 0; t1 < nt; ++t1) {
        for (int vt = 0; vt < 2; ++vt) {U.push_back({Unit::ENUM2D, n, d2, t1, 1, 0, vt});}
      }
    }
  }
  return U;
}

static std::vector<Unit> g_units_quick, g_units_thorough;

// --------------------------------------------------------------------------------------------
// random part
// --------------------------------------------------------------------------------------------
static int pick_offset(vh::Rng & r, int n, int mode)
{
  switch (mode) {
    case 0: return static_cast<int>(r.range(-2 * n, 2 * n));
    case 1: return static_cast<int>(r.range(-2, 2));
    case 3: {
        const int S[] = {n, -n, n + 1, -(n + 1), n - 1, -(n - 1), 2 * n, -2 * n, 1, -1, 0, 2 * n - 1, -(2 * n - 1)};
        return S[r.range(0, 12)];
      }
    case 4: return -static_cast<int>(r.range(1, 2 * n));
    default: return static_cast<int>(r.range(-n, n));
  }
}

// op_class: 0 plain, 1 argument aliased with the object's own state, 2 rvalue argument, 3 right after a
// copy / move / assignment of the grid, 4 right after operations on sibling objects, 5 long history
struct ExtraTally
{
  uint64_t offref = 0, cellref = 0, snapshot = 0, clone = 0, sibling = 0, plain = 0;
  uint64_t clones = 0, sibling_ops = 0, aliased_empty = 0, rvalue_empty = 0, getter_ref_index = 0,
    duplicate_values = 0, repeated_translation = 0, equal_components = 0;
  void flush(vh::Ctx & c)
  {
    c.margins[O_REF_OFF].n += offref; c.margins[O_REF_CELL].n += cellref; c.margins[O_SNAP].n += snapshot;
    c.margins[O_CLONE].n += clone; c.margins[O_SIBLING].n += sibling; c.margins[O_PLAIN].n += plain;
    c.count("grid_copies_moves_assignments", clones);
    c.count("sibling_object_operations", sibling_ops);
    c.count("translations_with_own_cell_as_empty_value", aliased_empty);
    c.count("translations_with_rvalue_empty_value", rvalue_empty);
    c.count("accesses_indexed_by_own_offset_getter", getter_ref_index);
    c.count("duplicate_value_writes", duplicate_values);
    c.count("repeated_identical_translations", repeated_translation);
    c.count("equal_component_translations", equal_components);
  }
};

template<class V, size_t DIM>
static void fill_unique(WrappableGrid<V, DIM> & g, Model<V> & m, uint64_t & next_id)
{
  for (int z = 0; z < m.n[2]; ++z) {
    for (int y = 0; y < m.n[1]; ++y) {
      for (int x = 0; x < m.n[0]; ++x) {
        const V v = Val<V>::id(next_id++);
        g(mk_ci<DIM>(x, y, z)) = v; m.write(x, y, z, v);
      }
    }
  }
}

static I3 random_offset(vh::Rng & r, const I3 & n, int dim, int mode)
{
  I3 off{{0, 0, 0}};
  if (mode == 2) {
    const int a = static_cast<int>(r.range(0, dim - 1));
    off[a] = pick_offset(r, n[a], 0);
  } else if (mode == 6) {
    // equal components on every axis (exact ties between axes)
    int lim = 2 * n[0];
    for (int a = 1; a < dim; ++a) {lim = std::min(lim, 2 * n[a]);}
    const int k = static_cast<int>(r.range(-lim, lim));
    for (int a = 0; a < dim; ++a) {off[a] = k;}
  } else {
    for (int a = 0; a < dim; ++a) {off[a] = pick_offset(r, n[a], mode);}
  }
  return off;
}

// long_bits: 0 ordinary history; 8 / 16: the history starts with 2^8+k / 2^16+k identical cheap
// translations that are observed only afterwards (index / counter wrap-around)
template<class V, size_t DIM>
static void random_case(vh::Ctx & c, vh::Rng & r, uint64_t idx, int long_bits)
{
  using G = WrappableGrid<V, DIM>;
  const int dim = static_cast<int>(DIM);
  I3 n{{1, 1, 1}};
  const int sm_ = static_cast<int>(r.range(0, 9));
  for (int a = 0; a < dim; ++a) {
    if (long_bits) {n[a] = static_cast<int>(r.range(1, long_bits == 16 ? 3 : 4));} else {
      n[a] = sm_ < 4 ? static_cast<int>(r.range(1, 4)) : sm_ < 8 ? static_cast<int>(r.range(1, 8)) :
        static_cast<int>(r.range(5, 8));
    }
  }
  if (sizeof(V) == 1) {
    // byte cells: at most 240 ids exist; keep the grid <= 240 cells so that they stay unambiguous.
    // The LAST axis (whole slabs, contiguous in memory) keeps its size, the leading ones shrink.
    while (n[0] * n[1] * n[2] > 240) {
      if (dim == 3 && n[1] > n[0]) {--n[1];} else {--n[0];}
    }
  }
  const int max_translations = long_bits ? static_cast<int>(r.range(1, 6)) :
    (r.coin(0.2) ? 50 : static_cast<int>(r.range(1, 50)));
  const double p_write = r.coin(0.15) ? 0.0 : r.uni(0.1, 0.6);
  char unit[112];
  snprintf(unit, sizeof unit, "random %s %dD n=(%d,%d,%d)%s", Val<V>::name(), dim, n[0], n[1], n[2],
    long_bits == 8 ? " long history 2^8+k" : long_bits == 16 ? " long history 2^16+k" : "");
  c.cat(dim == 2 ? "random_2d" : "random_3d");
  c.cat(std::string("cells_") + Val<V>::name());
  if (long_bits) {c.cat(long_bits == 8 ? "long_history_2p8" : "long_history_2p16");}

  std::unique_ptr<G> gp(new G(mk_ci<DIM>(n[0], n[1], n[2])));
  Model<V> m;
  m.init(n);
  std::vector<OpRec> ops;
  uint64_t next_id = c.seed % 1000 + 1, next_empty = 1;
  uint64_t h = vh::hash_addi(vh::hash_addi(0xC15, static_cast<uint64_t>(dim) * 7 + Val<std::string>::hash(Val<V>::name())),
      static_cast<uint64_t>(n[0] + 16 * n[1] + 256 * n[2] + 4096 * long_bits));
  Tally t;
  ExtraTally x;
  g_op_class = 0;

  // every cell is written before anything is read (the statement says nothing about cells that
  // were neither written nor brought in by a translation)
  if (r.coin(0.1)) {
    const V v = Val<V>::id(next_id++);
    gp->setValue(v); m.fill(v);
    ops.push_back({'F', {{0, 0, 0}}, Val<V>::show(v), false});
  } else {
    fill_unique<V, DIM>(*gp, m, next_id);
    ops.push_back({'W', {{0, 0, 0}}, "all cells, unique ids in x-fastest order", false});
  }

  // sibling objects of the same class and of the base class (hidden shared state would show up as
  // interference): a second wrappable grid with its own reference model, a plain Grid, temporaries
  I3 ns{{1, 1, 1}};
  for (int a = 0; a < dim; ++a) {ns[a] = static_cast<int>(r.range(1, 5));}
  if (sizeof(V) == 1) {while (ns[0] * ns[1] * ns[2] > 100) {--ns[0];}}
  std::unique_ptr<G> sp(new G(mk_ci<DIM>(ns[0], ns[1], ns[2])));
  Model<V> sm;
  sm.init(ns);
  fill_unique<V, DIM>(*sp, sm, next_id);
  // plain (non-wrapping) base-class grid fed with writes only: it must read back, cell by cell, what a
  // never-translated window shows, i.e. the last value written to that logical cell
  Grid<V, DIM> plain_a(mk_ci<DIM>(ns[0], ns[1], ns[2])), plain_b;
  const bool two_step = r.coin();                  // default-construct + init() instead of the sizing constructor
  if (two_step) {plain_b.init(mk_ci<DIM>(ns[0], ns[1], ns[2]));}
  Grid<V, DIM> & plain = two_step ? plain_b : plain_a;
  std::vector<V> plain_model(sm.size(), Val<V>::id(next_id));
  plain.setValue(Val<V>::id(next_id++));
  int s_translations = 0;
  I3 s_last_off{{0, 0, 0}};
  char unit_s[256];
  snprintf(unit_s, sizeof unit_s, "sibling grid n=(%d,%d,%d) of %s", ns[0], ns[1], ns[2], unit);

  int translations = 0, writes = 0;
  I3 last_off{{0, 0, 0}};
  std::vector<uint8_t> written_since;   // cells written after the last translation (feature counter only)
  written_since.assign(m.size(), 0);
  bool ok = true;

  auto params = [&]() {
      return vh::Params{{"dim", static_cast<double>(DIM)}, {"nx", m.n[0]}, {"ny", m.n[1]}, {"nz", m.n[2]},
        {"translations", translations}, {"writes", writes}, {"offx", last_off[0]}, {"offy", last_off[1]},
        {"offz", last_off[2]}, {"op_class", g_op_class}};
    };
  auto plain_wit = [&](const std::string & what) {
      return vh::J().s("unit", unit).s("what", what).f("ops_total", static_cast<uint64_t>(ops.size()))
             .raw("ops_tail", ops_json(ops)).str();
    };
  auto check_main = [&](int access) {
      const CmpStat st = compare<V, DIM>(*gp, m, access);
      return verdict<V, DIM>(c, t, unit, *gp, m, st, translations, writes, last_off, [&]() {return ops;});
    };

  // ---- result stability: references bound once, as the signatures allow, and used later
  const typename G::CellIndexes * offref = nullptr;   // = &(const auto & o = g.getIndexOffsetAlongAxes())
  const V * cellref = nullptr;                        // = &(const V & v = constgrid(ci)), valid until the next translation
  I3 cellref_at{{0, 0, 0}};
  auto rebind = [&]() {
      const typename G::CellIndexes & o = gp->getIndexOffsetAlongAxes();
      offref = &o;
      cellref_at = {{static_cast<int>(r.range(0, n[0] - 1)), static_cast<int>(r.range(0, n[1] - 1)),
        static_cast<int>(r.range(0, n[2] - 1))}};
      const G & cg = *gp;
      const V & v = cg(mk_ci<DIM>(cellref_at[0], cellref_at[1], cellref_at[2]));
      cellref = &v;
    };
  auto check_refs = [&]() -> bool {
      bool ok_off = true;
      for (size_t a = 0; a < DIM; ++a) {
        if (static_cast<int64_t>((*offref)[a]) != m.offset(static_cast<int>(a))) {ok_off = false;}
      }
      if (ok_off) {++x.offref;} else {
        c.expect(O_REF_OFF, false, K_STALE, params, [&]() {
            return plain_wit("const reference returned by getIndexOffsetAlongAxes(), bound once after the last "
                     "translation/copy, no longer shows the accumulated offset");
          });
      }
      const V & want = m.cell[m.lin(cellref_at[0], cellref_at[1], cellref_at[2])];
      const bool ok_cell = Val<V>::same(*cellref, want);
      if (ok_cell) {++x.cellref;} else {
        c.expect(O_REF_CELL, false, K_STALE, params, [&]() {
            return plain_wit("const reference to cell (" + std::to_string(cellref_at[0]) + "," + std::to_string(cellref_at[1]) +
                     "," + std::to_string(cellref_at[2]) + ") bound after the last translation reads " + Val<V>::show(*cellref) +
                     ", the cell holds " + Val<V>::show(want));
          });
      }
      return ok_off && ok_cell;
    };
  rebind();
  // by-value snapshot taken now, re-compared at the end of the case
  const V snap_value = *cellref;
  const V snap_expect = m.cell[m.lin(cellref_at[0], cellref_at[1], cellref_at[2])];
  const typename G::CellIndexes snap_offset = gp->getIndexOffsetAlongAxes();

  ok = check_main(0);

  // ---- long history prefix
  if (ok && long_bits) {
    const uint64_t N = (1ull << long_bits) + static_cast<uint64_t>(r.range(0, 5));
    I3 off{{0, 0, 0}};
    const int lm = static_cast<int>(r.range(0, 2));
    if (lm == 0) {off[r.range(0, dim - 1)] = r.coin() ? 1 : -1;} else {
      do {
        for (int a = 0; a < dim; ++a) {off[a] = static_cast<int>(r.range(-2, 2));}
      } while (off[0] == 0 && off[1] == 0 && off[2] == 0);
    }
    const V e = Val<V>::empty(next_empty++);
    const auto co = mk_co<DIM>(off);
    note_translation(t, m, off, dim);
    for (uint64_t i = 0; i < N; ++i) {gp->translate(co, e); m.translate(off, e);}
    t.transitions += N - 1;
    ops.push_back({'T', off, Val<V>::show(e) + "  (this translation repeated " + std::to_string(N) + " times, not observed in between)", false});
    h = vh::hash_addi(h, N * 4099 + static_cast<uint64_t>((off[0] + 64) + 128 * (off[1] + 64) + 16384 * (off[2] + 64)));
    translations += static_cast<int>(N);
    last_off = off;
    g_op_class = 5;
    rebind();
    ok = check_main(static_cast<int>(r.range(0, 2)));
    c.count(long_bits == 8 ? "long_history_2p8_translations" : "long_history_2p16_translations", N);
  }
  const int translations_goal = translations + max_translations;

  auto sibling_activity = [&]() -> bool {
      const int k = static_cast<int>(r.range(0, 3));
      ++x.sibling_ops;
      bool sok = true;
      if (k == 0) {
        const I3 off = random_offset(r, ns, dim, static_cast<int>(r.range(0, 6)));
        const V e = Val<V>::empty(next_empty++);
        sp->translate(mk_co<DIM>(off), e); sm.translate(off, e);
        ++s_translations; s_last_off = off;
        note_translation(t, sm, off, dim);
      } else if (k == 1) {
        const int xx = static_cast<int>(r.range(0, ns[0] - 1)), yy = static_cast<int>(r.range(0, ns[1] - 1)),
          zz = static_cast<int>(r.range(0, ns[2] - 1));
        const V v = Val<V>::id(next_id++);
        (*sp)(mk_ci<DIM>(xx, yy, zz)) = v; sm.write(xx, yy, zz, v);
      } else if (k == 2) {
        if (r.coin(0.15)) {
          const V v = r.coin() ? Val<V>::special(r.next()) : Val<V>::id(next_id++);
          plain.setValue(v);
          std::fill(plain_model.begin(), plain_model.end(), v);
        }
        const int nw = static_cast<int>(r.range(1, 3));
        for (int i = 0; i < nw; ++i) {
          const int xx = static_cast<int>(r.range(0, ns[0] - 1)), yy = static_cast<int>(r.range(0, ns[1] - 1)),
            zz = static_cast<int>(r.range(0, ns[2] - 1));
          const V v = Val<V>::id(next_id++);
          plain(mk_ci<DIM>(xx, yy, zz)) = v;
          plain_model[sm.lin(xx, yy, zz)] = v;
        }
        const Grid<V, DIM> & cplain = plain;
        const bool through_const = r.coin();
        bool pok = true;
        I3 bad{{0, 0, 0}};
        for (int zz = 0; zz < ns[2]; ++zz) {
          for (int yy = 0; yy < ns[1]; ++yy) {
            for (int xx = 0; xx < ns[0]; ++xx) {
              const auto ci = mk_ci<DIM>(xx, yy, zz);
              const V & got = through_const ? cplain(ci) : plain(ci);
              if (pok && !Val<V>::same(got, plain_model[sm.lin(xx, yy, zz)])) {pok = false; bad = {{xx, yy, zz}};}
            }
          }
        }
        if (pok) {++x.plain;} else {
          sok = false;
          c.expect(O_PLAIN, false, K_PLAIN, params, [&]() {
              return plain_wit("plain Grid n=(" + std::to_string(ns[0]) + "," + std::to_string(ns[1]) + "," + std::to_string(ns[2]) +
                       "), written cell by cell: cell (" + std::to_string(bad[0]) + "," + std::to_string(bad[1]) + "," +
                       std::to_string(bad[2]) + ") reads " + Val<V>::show(plain(mk_ci<DIM>(bad[0], bad[1], bad[2]))) + ", last value written " +
                       Val<V>::show(plain_model[sm.lin(bad[0], bad[1], bad[2])]));
            });
        }
      } else {
        // a temporary grid that lives and dies between two observations
        G tmp(mk_ci<DIM>(static_cast<int>(r.range(1, 4)), static_cast<int>(r.range(1, 4)), static_cast<int>(r.range(1, 4))));
        tmp.setValue(Val<V>::special(r.next()));
        I3 o{{0, 0, 0}};
        for (int a = 0; a < dim; ++a) {o[a] = static_cast<int>(r.range(-5, 5));}
        tmp.translate(mk_co<DIM>(o), Val<V>::empty(next_empty++));
      }
      h = vh::hash_addi(h, 0x51B + static_cast<uint64_t>(k));
      if (k <= 1) {
        const CmpStat st = compare<V, DIM>(*sp, sm, static_cast<int>(r.range(0, 2)));
        sok = verdict<V, DIM>(c, t, unit_s, *sp, sm, st, s_translations, 0, s_last_off, [&]() {
              std::vector<OpRec> o = ops;
              o.push_back({'T', s_last_off, "(last operation on the SIBLING grid; the history above is the main grid's)", false});
              return o;
            });
      }
      // the grid under observation must not notice
      g_op_class = 4;
      g_kind_override = K_INTERFERENCE; g_oracle_override = O_SIBLING;
      const CmpStat st = compare<V, DIM>(*gp, m, 0);
      const bool mok = verdict<V, DIM>(c, t, unit, *gp, m, st, translations, writes, last_off, [&]() {return ops;});
      g_kind_override = nullptr; g_oracle_override = nullptr;
      if (mok) {++x.sibling;}
      return sok && mok && check_refs();
    };

  // copy / move / assignment of the grid in mid-history.  The copy must behave as the original
  // (same reference model), the source must not be affected by what happens to the copy and vice versa.
  auto clone_op = [&]() -> bool {
      const int k = static_cast<int>(r.range(0, 5));
      ++x.clones;
      auto scribble = [&](G & src) {
          I3 o{{0, 0, 0}};
          for (int a = 0; a < dim; ++a) {o[a] = static_cast<int>(r.range(-n[a], n[a]));}
          src.translate(mk_co<DIM>(o), Val<V>::special(r.next()));
          src.setValue(Val<V>::special(r.next()));
        };
      auto other = [&]() {       // an existing grid of other sizes with a history of its own (assignment target)
          I3 no{{1, 1, 1}};
          for (int a = 0; a < dim; ++a) {no[a] = static_cast<int>(r.range(1, 5));}
          std::unique_ptr<G> o(new G(mk_ci<DIM>(no[0], no[1], no[2])));
          o->setValue(Val<V>::special(r.next()));
          I3 oo{{0, 0, 0}};
          for (int a = 0; a < dim; ++a) {oo[a] = static_cast<int>(r.range(-3, 3));}
          o->translate(mk_co<DIM>(oo), Val<V>::special(r.next()));
          return o;
        };
      const char * what = "";
      bool cok = true;
      g_op_class = 3;
      g_kind_override = K_COPY; g_oracle_override = O_CLONE;
      if (k == 0) {
        what = "copy-construct, overwrite and destroy the source";
        std::unique_ptr<G> cp(new G(*gp));
        scribble(*gp);
        gp = std::move(cp);
      } else if (k == 1) {
        what = "copy-assign onto a grid of other sizes, overwrite and destroy the source";
        std::unique_ptr<G> cp = other();
        *cp = *gp;
        scribble(*gp);
        gp = std::move(cp);
      } else if (k == 2) {
        what = "move-construct, destroy the source";
        std::unique_ptr<G> cp(new G(std::move(*gp)));
        gp = std::move(cp);
      } else if (k == 3) {
        what = "move-assign onto a grid of other sizes, destroy the source";
        std::unique_ptr<G> cp = other();
        *cp = std::move(*gp);
        gp = std::move(cp);
      } else if (k == 4) {
        what = "self copy-assignment";
        G & alias = *gp;
        *gp = alias;
      } else {
        what = "copy, use and destroy the copy; the source goes on";
        std::unique_ptr<G> cp(new G(*gp));
        Model<V> cm = m;
        const int steps = static_cast<int>(r.range(1, 3));
        for (int i = 0; i < steps && cok; ++i) {
          const I3 off = random_offset(r, n, dim, static_cast<int>(r.range(0, 6)));
          const V e = Val<V>::empty(next_empty++);
          cp->translate(mk_co<DIM>(off), e); cm.translate(off, e);
          const int xx = static_cast<int>(r.range(0, n[0] - 1)), yy = static_cast<int>(r.range(0, n[1] - 1)),
            zz = static_cast<int>(r.range(0, n[2] - 1));
          const V v = Val<V>::id(next_id++);
          (*cp)(mk_ci<DIM>(xx, yy, zz)) = v; cm.write(xx, yy, zz, v);
          const CmpStat st = compare<V, DIM>(*cp, cm, static_cast<int>(r.range(0, 2)));
          cok = verdict<V, DIM>(c, t, unit, *cp, cm, st, translations + i + 1, writes, off, [&]() {
                std::vector<OpRec> o = ops;
                o.push_back({'T', off, "(operations on a COPY of the grid taken here; expected/read cells are the copy's)", false});
                return o;
              });
        }
      }
      ops.push_back({'C', {{k, 0, 0}}, what, false});
      h = vh::hash_addi(h, 0xC0 + static_cast<uint64_t>(k));
      const CmpStat st = compare<V, DIM>(*gp, m, static_cast<int>(r.range(0, 2)));
      const bool mok = verdict<V, DIM>(c, t, unit, *gp, m, st, translations, writes, last_off, [&]() {return ops;});
      g_kind_override = nullptr; g_oracle_override = nullptr;
      if (mok && cok) {++x.clone;}
      rebind();
      return mok && cok;
    };

  int guard = 0;
  while (ok && translations < translations_goal && ++guard < 400) {
    g_op_class = 0;
    if (r.coin(0.3)) {
      ok = sibling_activity();
      if (!ok) {break;}
      g_op_class = 0;
    }
    const double u = r.uni();
    bool rebound = false;
    if (u < p_write) {
      // a burst of writes through operator()
      const int k = static_cast<int>(r.range(1, 4));
      for (int i = 0; i < k; ++i) {
        int xx = static_cast<int>(r.range(0, n[0] - 1)), yy = static_cast<int>(r.range(0, n[1] - 1)),
          zz = static_cast<int>(r.range(0, n[2] - 1));
        V v = r.coin(0.05) ? Val<V>::special(r.next()) : Val<V>::id(next_id++);
        const double wk = r.uni();
        const G & cg = *gp;
        if (wk < 0.70) {
          (*gp)(mk_ci<DIM>(xx, yy, zz)) = v;
        } else if (wk < 0.80) {
          V tmp = v;
          (*gp)(mk_ci<DIM>(xx, yy, zz)) = std::move(tmp);            // rvalue
          g_op_class = 2;
        } else if (wk < 0.88) {
          // the same value twice: a reference obtained from the grid's own accessor is assigned to another cell
          const int x2 = static_cast<int>(r.range(0, n[0] - 1)), y2 = static_cast<int>(r.range(0, n[1] - 1)),
            z2 = static_cast<int>(r.range(0, n[2] - 1));
          v = m.cell[m.lin(x2, y2, z2)];
          (*gp)(mk_ci<DIM>(xx, yy, zz)) = cg(mk_ci<DIM>(x2, y2, z2));
          ++x.duplicate_values; g_op_class = 1;
        } else if (wk < 0.92) {
          v = m.cell[m.lin(xx, yy, zz)];
          (*gp)(mk_ci<DIM>(xx, yy, zz)) = cg(mk_ci<DIM>(xx, yy, zz));   // cell assigned to itself
          ++x.duplicate_values; g_op_class = 1;
        } else {
          // the reference returned by the offset getter passed straight back as the cell index
          const auto & o = gp->getIndexOffsetAlongAxes();
          xx = static_cast<int>(o[0]); yy = static_cast<int>(o[1]); zz = DIM == 3 ? static_cast<int>(o[DIM - 1]) : 0;
          (*gp)(gp->getIndexOffsetAlongAxes()) = v;
          ++x.getter_ref_index; g_op_class = 1;
        }
        m.write(xx, yy, zz, v);
        written_since[m.lin(xx, yy, zz)] = 1;
        ops.push_back({'W', {{xx, yy, zz}}, Val<V>::show(v), false});
        h = vh::hash_addi(h, 0x57 + static_cast<uint64_t>(xx + 16 * yy + 256 * zz) + (Val<V>::hash(v) << 12));
        ++writes; ++t.writes;
      }
    } else if (u < p_write + 0.02) {
      const V v = Val<V>::id(next_id++);
      if (r.coin()) {gp->setValue(v);} else {gp->setValue(V(v));}
      m.fill(v);
      std::fill(written_since.begin(), written_since.end(), 1);
      ops.push_back({'F', {{0, 0, 0}}, Val<V>::show(v), false});
      h = vh::hash_addi(h, 0xF1 + (Val<V>::hash(v) << 8));
      ++writes; ++t.writes;
    } else if (u < p_write + 0.07) {
      ok = clone_op();
      rebound = true;
      if (!ok) {break;}
      continue;
    } else {
      I3 off;
      if (translations > 0 && r.coin(0.06)) {
        off = last_off;                       // the very same translation again
        ++x.repeated_translation;
      } else {
        const int mode = static_cast<int>(r.range(0, 6));
        off = random_offset(r, n, dim, mode);
        if (mode == 6) {++x.equal_components;}
      }
      note_translation(t, m, off, dim);
      // did a cell written since the last translation stay inside the window?
      bool wrote_survivor = false;
      for (int z = 0; z < n[2] && !wrote_survivor; ++z) {
        for (int y = 0; y < n[1] && !wrote_survivor; ++y) {
          for (int xx = 0; xx < n[0]; ++xx) {
            if (written_since[m.lin(xx, y, z)] && xx - off[0] >= 0 && xx - off[0] < n[0] && y - off[1] >= 0 &&
              y - off[1] < n[1] && z - off[2] >= 0 && z - off[2] < n[2]) {wrote_survivor = true; break;}
          }
        }
      }
      if (wrote_survivor) {++t.write_survived_translation;}
      std::fill(written_since.begin(), written_since.end(), 0);
      const double ek = r.uni();
      if (ek < 0.08) {
        gp->translate(mk_co<DIM>(off));            // default argument: emptyValue = T()
        m.translate(off, V());
        ops.push_back({'T', off, Val<V>::show(V()), true});
        h = vh::hash_addi(h, 0xD0);
      } else if (ek < 0.18) {
        // the empty value is a reference to one of the grid's own cells; expected = its value at call time
        const int xx = static_cast<int>(r.range(0, n[0] - 1)), yy = static_cast<int>(r.range(0, n[1] - 1)),
          zz = static_cast<int>(r.range(0, n[2] - 1));
        const G & cg = *gp;
        const V at_call = m.cell[m.lin(xx, yy, zz)];
        gp->translate(mk_co<DIM>(off), cg(mk_ci<DIM>(xx, yy, zz)));
        m.translate(off, at_call);
        ops.push_back({'T', off, Val<V>::show(at_call) + "  (passed as a reference to the grid's own cell (" + std::to_string(xx) + "," +
            std::to_string(yy) + "," + std::to_string(zz) + "))", false});
        h = vh::hash_addi(h, 0xA1 + Val<V>::hash(at_call));
        ++x.aliased_empty; g_op_class = 1;
      } else {
        // explicit value: unique, special, or equal to a value that is already in the grid
        V e = ek < 0.26 ? Val<V>::special(r.next()) : ek < 0.31 ?
          m.cell[static_cast<size_t>(r.range(0, static_cast<int64_t>(m.size()) - 1))] : Val<V>::empty(next_empty++);
        const V shown = e;
        const double vk = r.uni();
        if (vk < 0.7) {gp->translate(mk_co<DIM>(off), e);} else if (vk < 0.85) {
          gp->translate(mk_co<DIM>(off), V(e));              // temporary
          ++x.rvalue_empty; g_op_class = 2;
        } else {
          const auto co = mk_co<DIM>(off);
          gp->translate(co, std::move(e));                   // xvalue, offset as an lvalue
          ++x.rvalue_empty; g_op_class = 2;
        }
        m.translate(off, shown);
        ops.push_back({'T', off, Val<V>::show(shown), false});
        h = vh::hash_addi(h, Val<V>::hash(shown));
      }
      h = vh::hash_addi(h, 0x7A + static_cast<uint64_t>((off[0] + 64) + 128 * (off[1] + 64) + 16384 * (off[2] + 64)));
      ++translations;
      last_off = off;
      rebind();
      rebound = true;
    }
    ok = check_main(static_cast<int>(r.range(0, 2)));
    if (ok && !rebound) {ok = check_refs();}
  }
  g_op_class = 0;
  if (ok) {
    // end of the case: the sibling still matches its own model, bound references and snapshots still hold
    const CmpStat st = compare<V, DIM>(*sp, sm, 0);
    ok = verdict<V, DIM>(c, t, unit_s, *sp, sm, st, s_translations, 0, s_last_off, [&]() {return ops;});
    if (ok) {ok = check_refs();}
    bool snap_ok = Val<V>::same(snap_value, snap_expect);
    for (size_t a = 0; a < DIM; ++a) {if (snap_offset[a] != 0) {snap_ok = false;}}
    if (snap_ok) {++x.snapshot;} else {
      c.expect(O_SNAP, false, K_STALE, params, [&]() {return plain_wit("values copied out of the pristine grid changed later");});
    }
  }
  // non-trivial: goes beyond what the unit tests do (one translation from the pristine state)
  (void)idx;
  c.distinct(vh::hash_addi(h, static_cast<uint64_t>(translations)), translations >= 2);
  c.sample(std::string("random_") + Val<V>::name() + (dim == 2 ? "_2d" : "_3d") + (long_bits ? "_long" : ""), [&]() {
      std::vector<OpRec> head(ops.begin(), ops.begin() + std::min<size_t>(ops.size(), 6));
      return vh::J().s("unit", unit).f("translations", translations).f("writes", writes)
             .raw("first_ops", ops_json(head)).str();
    });
  t.flush(c);
  x.flush(c);
}

template<class V> static void random_dim(vh::Ctx & c, vh::Rng & r, uint64_t idx, bool d3, int long_bits)
{
  if (d3) {random_case<V, 3>(c, r, idx, long_bits);} else {random_case<V, 2>(c, r, idx, long_bits);}
}

// --------------------------------------------------------------------------------------------
static void one_case(vh::Ctx & c, uint64_t idx)
{
  const std::vector<Unit> & U = c.tier == "thorough" ? g_units_thorough : g_units_quick;
  if (idx < U.size()) {
    const Unit & u = U[idx];
    Tally t;
    const char * cat = u.kind == Unit::ENUM2D ? "exh2d_enum" : u.kind == Unit::BFS2D ? "exh2d_bfs" : "exh3d_bfs";
    c.cat(cat);
    c.cat(u.vt == 0 ? "cells_int" : "cells_uint8");
    c.cat(u.vt == 0 ? "exh_cells_int" : "exh_cells_uint8");
    if (u.vt == 0) {
      if (u.kind == Unit::ENUM2D) {run_enum2d<int>(c, u, t);} else if (u.kind == Unit::BFS2D) {run_bfs<int, 2>(c, u, t);} else {
        run_bfs<int, 3>(c, u, t);
      }
    } else {
      if (u.kind == Unit::ENUM2D) {run_enum2d<uint8_t>(c, u, t);} else if (u.kind == Unit::BFS2D) {
        run_bfs<uint8_t, 2>(c, u, t);
      } else {
        run_bfs<uint8_t, 3>(c, u, t);
      }
    }
    // every exhaustive unit contains histories of >= 2 translations -> non-trivial
    c.distinct(vh::hash_addi(vh::hash_addi(vh::hash_addi(0xE15 + u.kind, static_cast<uint64_t>(u.n[0] + 8 * u.n[1] + 64 * u.n[2])),
      static_cast<uint64_t>(u.depth * 1000003 + u.t1)), static_cast<uint64_t>(u.K * 1000 + u.k + 1000000 * u.vt)), u.depth >= 2);
    c.sample(cat, [&]() {return vh::J().s("unit", unit_name(u)).f("transitions", t.transitions).str();});
    t.flush(c);
    return;
  }
  vh::Rng r(c.seed, idx);
  // a fixed share of the random histories starts with 2^8+k resp. 2^16+k identical translations
  const uint64_t rel = idx - U.size();
  const int long_bits = rel % 1000 == 7 ? 16 : (rel % 50 == 3 ? 8 : 0);
  // int 15 %, double 10 %, string 15 %, uint8 15 %, int8 10 %, char 10 %, uint16 10 %, float 5 %, rgb3 10 %
  const int ty = static_cast<int>(r.range(0, 19));
  const bool d3 = r.coin(0.5);
  if (ty < 3) {random_dim<int>(c, r, idx, d3, long_bits);} else if (ty < 5) {
    random_dim<double>(c, r, idx, d3, long_bits);
  } else if (ty < 8) {random_dim<std::string>(c, r, idx, d3, long_bits);} else if (ty < 11) {
    random_dim<uint8_t>(c, r, idx, d3, long_bits);
  } else if (ty < 13) {random_dim<int8_t>(c, r, idx, d3, long_bits);} else if (ty < 15) {
    random_dim<char>(c, r, idx, d3, long_bits);
  } else if (ty < 17) {random_dim<uint16_t>(c, r, idx, d3, long_bits);} else if (ty < 18) {
    random_dim<float>(c, r, idx, d3, long_bits);
  } else {random_dim<RGB>(c, r, idx, d3, long_bits);}
}

int main(int argc, char ** argv)
{
  g_units_quick = build_units(false);
  g_units_thorough = build_units(true);
  if (getenv("C15_LIST_UNITS")) {     // development aid: case index -> unit
    const auto & U = std::string(getenv("C15_LIST_UNITS")) == "thorough" ? g_units_thorough : g_units_quick;
    for (size_t i = 0; i < U.size(); ++i) {printf("%zu %s\n", i, unit_name(U[i]).c_str());}
    return 0;
  }
  return vh::run(argc, argv, "C15",
           {g_units_quick.size() + 3000, g_units_thorough.size() + 500000}, one_case,
           [](vh::Ctx & c) {
             if (c.shard == 0) {
               c.count("exhaustive_units_in_tier", (c.tier == "thorough" ? g_units_thorough : g_units_quick).size());
             }
           });
}
