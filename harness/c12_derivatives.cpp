// C12  Analytic derivatives and propagated covariances match the maps they describe.
//
// (a) SmartRotation3D derivative matrices vs 4th-order finite differences of the object's own R()
// (b) covariance of a rigidly transformed Pose3D vs J C J^T with J the finite-difference Jacobian
//     of the library's own operator*(Affine3d, Pose3D)
// (c) LeastSquares::computeEstimateCovariance vs v A (J^T J)^-1 A^T (diagonal A)
//
// Two genuine defects are recorded as open findings (DESIGN C12).  To stay sharp in their
// presence every mismatch is classified by signature: a residual equal to the documented
// leftover term / the documented defective Jacobian gets the listed kind, anything else a
// different kind (reported as a VIOLATION).
#include <Eigen/Dense>
#include <Eigen/Geometry>
#include "romea_core_common/transform/SmartRotation3D.hpp"
#include "romea_core_common/geometry/Pose3D.hpp"
#include "romea_core_common/regression/leastsquares/LeastSquares.hpp"
#include "vh.hpp"

typedef long double LD;
using MatL = Eigen::Matrix<LD, Eigen::Dynamic, Eigen::Dynamic>;
using VecL = Eigen::Matrix<LD, Eigen::Dynamic, 1>;
using Mat3L = Eigen::Matrix<LD, 3, 3>;
using romea::core::SmartRotation3D;
using romea::core::Pose3D;

static Mat3L RxL(LD a) {Mat3L m; m << 1, 0, 0, 0, cosl(a), -sinl(a), 0, sinl(a), cosl(a); return m;}
static Mat3L RyL(LD a) {Mat3L m; m << cosl(a), 0, sinl(a), 0, 1, 0, -sinl(a), 0, cosl(a); return m;}
static Mat3L RzL(LD a) {Mat3L m; m << cosl(a), -sinl(a), 0, sinl(a), cosl(a), 0, 0, 0, 1; return m;}
static Mat3L dRxL(LD a) {Mat3L m; m << 0, 0, 0, 0, -sinl(a), -cosl(a), 0, cosl(a), -sinl(a); return m;}
static Mat3L dRyL(LD a) {Mat3L m; m << -sinl(a), 0, cosl(a), 0, 0, 0, -cosl(a), 0, -sinl(a); return m;}
static Mat3L dRzL(LD a) {Mat3L m; m << -sinl(a), -cosl(a), 0, cosl(a), -sinl(a), 0, 0, 0, 0; return m;}

template<class M> static Mat3L ld3(const M & m)
{
  Mat3L o; for (int i = 0; i < 3; ++i) {for (int j = 0; j < 3; ++j) {o(i, j) = (LD)m(i, j);}} return o;
}

static double pick_angle(vh::Rng & r, double lim)
{
  int k = (int)r.range(0, 9);
  if (k == 0) {return 0;}
  if (k == 1) {return r.sign() * lim;}
  if (k == 2) {return r.sign() * r.logu(1e-9, 1e-2);}
  return r.uni(-lim, lim);
}

// --------------------------------------------------------------------------------------- (a)
static void case_rotation(vh::Ctx & c, vh::Rng & r)
{
  const double PL = M_PI / 2 - 0.05;
  double ang[3] = {pick_angle(r, M_PI), pick_angle(r, PL), pick_angle(r, M_PI)};
  c.cat("a_smart_rotation");
  c.distinct(vh::hash_doubles({1.0, ang[0], ang[1], ang[2]}), (ang[0] != 0) + (ang[1] != 0) + (ang[2] != 0) >= 2);
  // half of the objects are re-initialised after holding another rotation (history), incl. one
  // that shares some of the angles
  SmartRotation3D sr;
  if (r.coin()) {
    double o[3] = {r.coin(0.3) ? ang[0] : pick_angle(r, M_PI), r.coin(0.3) ? ang[1] : pick_angle(r, PL), r.coin(0.3) ? ang[2] : pick_angle(r, M_PI)};
    if (r.coin(0.6)) {
      sr.init(o[0], o[1], o[2]);
    } else {
      // longer history mixing the two init overloads over a small pool of angle triples that
      // contains the final one: "vector v, scalars w, vector v again" and all its relatives
      double o2[3] = {pick_angle(r, M_PI), pick_angle(r, PL), pick_angle(r, M_PI)};
      const double * pool[3] = {ang, o, o2};
      const int steps = (int)r.range(2, 5);
      for (int q = 0; q < steps; ++q) {
        const double * t = pool[r.range(0, 2)];
        if (r.coin()) {sr.init(Eigen::Vector3d(t[0], t[1], t[2]));} else {sr.init(t[0], t[1], t[2]);}
      }
      c.cat("a_history_mixing_init_overloads");
    }
    if (r.coin()) {sr.init(Eigen::Vector3d(ang[0], ang[1], ang[2]));} else {sr.init(ang[0], ang[1], ang[2]);}
    c.cat("a_reinitialised_object");
  } else {
    sr = SmartRotation3D(ang[0], ang[1], ang[2]);
    c.cat("a_fresh_object");
  }
  const Eigen::Matrix3d * rep[3] = {&sr.dRdAngleAroundXAxis(), &sr.dRdAngleAroundYAxis(), &sr.dRdAngleAroundZAxis()};
  // documented leftover terms (identity entries kept in the per-axis derivative matrices)
  Mat3L e0 = Mat3L::Zero(), e1 = Mat3L::Zero(), e2 = Mat3L::Zero();
  e0(0, 0) = 1; e1(1, 1) = 1; e2(2, 2) = 1;
  Mat3L left[3] = {RzL(ang[2]) * RyL(ang[1]) * e0, RzL(ang[2]) * e1 * RxL(ang[0]), e2 * RyL(ang[1]) * RxL(ang[0])};
  const double h = 1e-3;
  auto params = [&]() {return vh::Params{{"roll", ang[0]}, {"pitch", ang[1]}, {"yaw", ang[2]}};};
  c.sample("a_smart_rotation", [&]() {return vh::J().s("part", "a").f("roll", ang[0]).f("pitch", ang[1]).f("yaw", ang[2]).str();});
  Eigen::Vector3d v(r.normal() * r.logu(1e-3, 1e3), r.normal() * r.logu(1e-3, 1e3), r.normal() * r.logu(1e-3, 1e3));
  Eigen::Matrix3d dRT = sr.dRTdAngles(v);
  for (int k = 0; k < 3; ++k) {
    auto Rat = [&](double d) {double a[3] = {ang[0], ang[1], ang[2]}; a[k] += d; return ld3(SmartRotation3D(a[0], a[1], a[2]).R());};
    Mat3L fd = (-Rat(2 * h) + 8 * Rat(h) - 8 * Rat(-h) + Rat(-2 * h)) / (12 * (LD)h);
    Mat3L D = ld3(*rep[k]);
    Mat3L E = D - fd;
    auto wit = [&]() {
        return vh::J().s("part", "a").f("axis", k).f("roll", ang[0]).f("pitch", ang[1]).f("yaw", ang[2])
               .raw("reported", vh::jmat(D)).raw("finite_difference_of_R", vh::jmat(fd)).raw("documented_leftover", vh::jmat(left[k])).str();
      };
    static const char * names[3] = {"a.dRdAngleX_vs_fd", "a.dRdAngleY_vs_fd", "a.dRdAngleZ_vs_fd"};
    LD e_true = E.norm(), e_doc = (E - left[k]).norm();
    if (e_true <= 1e-8L) {
      c.expect_le(names[k], e_true, 1e-8L, "derivative_mismatch", params, wit);
      c.count("a_matches_true_derivative");
    } else if (e_doc <= 1e-8L) {
      c.count("a_matches_documented_leftover");
      c.maxi("a_distance_to_documented_signature", (double)e_doc);
      c.violation("smartrotation_identity_leftover", params(), wit());
    } else {
      c.expect_le(names[k], std::min(e_true, e_doc), 1e-8L, "derivative_mismatch", params, wit);
    }
    // derivative of a rotated vector = reported matrix times the vector (internal consistency)
    Eigen::Vector3d col = (*rep[k]) * v;
    c.expect_le("a.dRTdAngles_is_matrix_times_vector", (LD)(dRT.col(k) - col).norm(), 64 * 2.2e-16L * (LD)v.norm() * 2,
      "dRT_inconsistent", params, wit);
  }
  // R itself is the ZYX product (shared with C10, cheap here: guards the FD reference)
  c.expect_le("a.R_is_RzRyRx", (ld3(sr.R()) - RzL(ang[2]) * RyL(ang[1]) * RxL(ang[0])).norm(), 1e-14L, "rotation_wrong", params,
    [&]() {return vh::J().s("part", "a").raw("R", vh::jmat(sr.R())).str();});
}

// --------------------------------------------------------------------------------------- (b)
static Eigen::Matrix<double, 6, 6> random_psd(vh::Rng & r, bool & rank_deficient)
{
  Eigen::Matrix<double, 6, 6> A;
  for (int i = 0; i < 6; ++i) {for (int j = 0; j < 6; ++j) {A(i, j) = r.normal();}}
  Eigen::HouseholderQR<Eigen::Matrix<double, 6, 6>> qr(A);
  Eigen::Matrix<double, 6, 6> Q = qr.householderQ();
  Eigen::Matrix<double, 6, 1> d;
  double sc = r.logu(1e-6, 1e2), kappa = r.logu(1.0, 1e6);
  for (int i = 0; i < 6; ++i) {d(i) = sc * (i == 0 ? 1.0 : i == 5 ? 1 / kappa : r.logu(1 / kappa, 1.0));}
  rank_deficient = r.coin(0.15);
  if (rank_deficient) {d(5) = 0; if (r.coin()) {d(4) = 0;}}
  if (r.coin(0.1)) {Q.setIdentity();}
  Eigen::Matrix<double, 6, 6> C = Q * d.asDiagonal() * Q.transpose();
  return (0.5 * (C + C.transpose())).eval();
}

static LD wrap(LD a)
{
  const LD PI_L = 3.14159265358979323846264338327950288L;
  while (a > PI_L) {a -= 2 * PI_L;}
  while (a <= -PI_L) {a += 2 * PI_L;}
  return a;
}

static void case_pose(vh::Ctx & c, vh::Rng & r)
{
  const double PL = M_PI / 2 - 0.05;
  Pose3D pose;
  Eigen::Affine3d T;
  double aa = 0; Eigen::Vector3d ax;
  bool identity_both = r.coin(0.03);
  for (int attempt = 0;; ++attempt) {
    double ps = r.coin(0.2) ? 0.0 : r.logu(1e-2, 1e3);
    pose.position = Eigen::Vector3d(r.normal(), r.normal(), r.normal()) * ps;
    pose.orientation = Eigen::Vector3d(pick_angle(r, 3.0), pick_angle(r, PL), pick_angle(r, 3.0));
    ax = Eigen::Vector3d(r.normal(), r.normal(), r.normal()).normalized();
    aa = r.coin(0.1) ? 0.0 : r.uni(-3.1, 3.1);
    double ts = r.coin(0.2) ? 0.0 : r.logu(1e-2, 1e3);
    if (identity_both) {aa = 0; pose.orientation.setZero();}
    T = Eigen::Translation3d(r.normal() * ts, r.normal() * ts, r.normal() * ts) * Eigen::AngleAxisd(aa, ax);
    pose.covariance.setZero();
    Pose3D out = T * pose;
    // away from gimbal lock before and after, and away from the +-pi wrap of roll / yaw so that
    // the finite differences stay on one branch
    if (std::fabs(out.orientation.y()) <= PL && std::fabs(out.orientation.x()) < 3.1 && std::fabs(out.orientation.z()) < 3.1) {break;}
    if (attempt > 50) {aa = 0; }
  }
  bool rd = false;
  pose.covariance = random_psd(r, rd);
  c.cat("b_pose_covariance");
  if (rd) {c.cat("b_rank_deficient_covariance");}
  if (identity_both) {c.cat("b_identity_transform_and_attitude");}
  c.distinct(vh::hash_doubles({2.0, pose.position.x(), pose.orientation.x(), pose.orientation.y(), pose.orientation.z(), aa, pose.covariance(0, 0)}),
    aa != 0 && pose.orientation.norm() > 0);
  auto params = [&]() {
      return vh::Params{{"roll", pose.orientation.x()}, {"pitch", pose.orientation.y()}, {"yaw", pose.orientation.z()},
        {"transform_angle", aa}, {"identity_both", (double)identity_both}};
    };
  Pose3D out = T * pose;
  auto wit = [&]() {
      return vh::J().s("part", "b").raw("position", vh::jvec(pose.position)).raw("orientation", vh::jvec(pose.orientation))
             .raw("transform", vh::jmat(T.matrix())).raw("covariance_in", vh::jmat(pose.covariance))
             .raw("covariance_out", vh::jmat(out.covariance)).str();
    };
  c.sample("b_pose_covariance", [&]() {
      return vh::J().s("part", "b").raw("position", vh::jvec(pose.position)).raw("orientation", vh::jvec(pose.orientation))
             .f("transform_angle", aa).raw("transform_axis", vh::jvec(ax)).str();
    });
  if (!c.expect("b.finite", out.covariance.allFinite(), "nonfinite", params, wit)) {return;}

  // ---- numeric Jacobian of the library's own map (position, roll, pitch, yaw) -> (position', roll', pitch', yaw')
  auto f = [&](const Eigen::Matrix<double, 6, 1> & x) {
      Pose3D p; p.position = x.head<3>(); p.orientation = x.tail<3>(); p.covariance.setZero();
      Pose3D o = T * p;
      Eigen::Matrix<LD, 6, 1> y;
      for (int i = 0; i < 3; ++i) {y(i) = o.position(i); y(3 + i) = o.orientation(i);}
      return y;
    };
  Eigen::Matrix<double, 6, 1> x0; x0 << pose.position, pose.orientation;
  Eigen::Matrix<LD, 6, 1> y0 = f(x0);
  Eigen::Matrix<LD, 6, 6> Jfd;
  for (int k = 0; k < 6; ++k) {
    double h = k < 3 ? 1e-3 * (1 + std::fabs(x0(k))) : 1e-3;
    auto at = [&](double m) {
        Eigen::Matrix<double, 6, 1> x = x0; x(k) += m * h;
        // use the step actually taken (x(k) - x0(k)) to remove representation error of the abscissa
        Eigen::Matrix<LD, 6, 1> d = f(x) - y0;
        for (int i = 3; i < 6; ++i) {d(i) = wrap(d(i));}
        return d;
      };
    Jfd.col(k) = (-at(2) + 8 * at(1) - 8 * at(-1) + at(-2)) / (12 * (LD)h);
  }
  Eigen::Matrix<LD, 6, 6> Cin = pose.covariance.cast<LD>();
  Eigen::Matrix<LD, 6, 6> Ctrue = Jfd * Cin * Jfd.transpose();
  Eigen::Matrix<LD, 6, 6> Crep = out.covariance.cast<LD>();

  // ---- documented defective Jacobian (DESIGN C12b), re-implemented independently in long double
  Eigen::Matrix<LD, 6, 6> Jdoc = Eigen::Matrix<LD, 6, 6>::Zero();
  {
    LD ro = pose.orientation.x(), pi = pose.orientation.y(), ya = pose.orientation.z();
    Mat3L Rp = RzL(ya) * RyL(pi) * RxL(ro);
    Mat3L I0 = Mat3L::Zero(), I1 = Mat3L::Zero(), I2 = Mat3L::Zero();
    I0(0, 0) = 1; I1(1, 1) = 1; I2(2, 2) = 1;
    Mat3L dX = RzL(ya) * RyL(pi) * (dRxL(ro) + I0), dY = RzL(ya) * (dRyL(pi) + I1) * RxL(ro), dZ = (dRzL(ya) + I2) * RyL(pi) * RxL(ro);
    Mat3L R = ld3(T.rotation());
    Mat3L rot = R * Rp;
    Jdoc.block<3, 3>(0, 0) = rot;
    LD r21 = rot(2, 1), r22 = rot(2, 2), a21 = r22 / (r21 * r21 + r22 * r22), a22 = r21 / (r21 * r21 + r22 * r22);
    Jdoc(3, 3) = R.row(2).dot(a21 * dX.col(1) - a22 * dX.col(2));
    Jdoc(3, 4) = R.row(2).dot(a21 * dY.col(1) - a22 * dY.col(2));
    Jdoc(3, 5) = R.row(2).dot(a21 * dZ.col(1) - a22 * dZ.col(2));
    LD r20 = rot(2, 0), a20 = 1 / (1 - r20 * r20);
    Jdoc(4, 3) = R.row(2).dot(a20 * dX.col(0));
    Jdoc(4, 4) = R.row(2).dot(a20 * dY.col(0));
    Jdoc(4, 5) = R.row(2).dot(a20 * dZ.col(0));
    LD r10 = R(1, 0), r00 = R(0, 0), a10 = r00 / (r00 * r00 + r10 * r10), a00 = r10 / (r00 * r00 + r10 * r10);
    Eigen::Matrix<LD, 1, 3> w = -a00 * rot.row(0) + a10 * rot.row(1);
    Jdoc(5, 3) = w.dot(dY.col(0));
    Jdoc(5, 4) = w.dot(dX.col(0));
    Jdoc(5, 5) = w.dot(dZ.col(0));
  }
  Eigen::Matrix<LD, 6, 6> Cdoc = Jdoc * Cin * Jdoc.transpose();

  LD scale_true = Jfd.norm() * Jfd.norm() * Cin.norm();
  LD scale_doc = Jdoc.norm() * Jdoc.norm() * Cin.norm();
  LD e_true = (Crep - Ctrue).norm() / std::max(scale_true, (LD)1e-300);
  LD e_doc = (Crep - Cdoc).norm() / std::max(scale_doc, (LD)1e-300);
  if (e_true <= 1e-6L) {
    c.expect_le("b.covariance_is_J_C_Jt", e_true, 1e-6L, "pose_cov_mismatch", params, wit);
    c.count("b_matches_true_propagation");
  } else if (e_doc <= 1e-9L) {
    c.count("b_matches_documented_defective_jacobian");
    c.maxi("b_distance_to_documented_signature", (double)e_doc);
    c.violation("pose_cov_documented_jacobian", params(), wit());
  } else {
    c.expect_le("b.covariance_is_J_C_Jt", std::min(e_true, e_doc * 1e3L), 1e-6L, "pose_cov_mismatch", params, [&]() {
        return vh::J().raw("case", wit()).f("rel_distance_to_true_propagation", e_true).f("rel_distance_to_documented_jacobian", e_doc).str();
      });
  }
  // ---- symmetric positive semi-definite whatever the Jacobian
  LD asym = (Crep - Crep.transpose()).norm();
  c.expect_le("b.symmetric", asym, 64 * 2.2e-16L * Crep.norm(), "pose_cov_not_symmetric", params, wit);
  Eigen::SelfAdjointEigenSolver<Eigen::Matrix<LD, 6, 6>> es((Crep + Crep.transpose()) / 2);
  c.expect_le("b.positive_semidefinite", -es.eigenvalues()(0), 256 * 2.2e-16L * std::max(Crep.norm(), scale_doc), "pose_cov_not_psd", params, wit);
}

// --------------------------------------------------------------------------------------- (c)
template<class S>
static void case_ls(vh::Ctx & c, vh::Rng & r, bool is_float)
{
  // a short HISTORY on one solver object: the covariance must describe the problem just solved,
  // whatever was solved (and by which path) before
  const LD eps = std::numeric_limits<S>::epsilon();
  const int m = (int)r.range(1, 8);
  const int nprob = (int)r.range(1, 4);
  romea::core::LeastSquares<S> ls(m);
  typename romea::core::LeastSquares<S>::Matrix * kJ = nullptr; typename romea::core::LeastSquares<S>::Vector * kY = nullptr, * kW = nullptr;
  int prev_n = -1;
  c.cat(is_float ? "c_ls_covariance_float" : "c_ls_covariance_double");
  std::string trace;
  uint64_t h = vh::hash_doubles({3.0, (double)m, (double)nprob});
  bool any_nonidentity = false;
  for (int k = 0; k < nprob; ++k) {
    int n = (int)r.range(m, r.coin() ? m + 10 : 200);
    if (r.coin(0.08)) {static const int SZ[] = {64, 128, 256, 512, 1024, 2048, 3072, 4096}; n = SZ[r.range(0, 7)]; c.cat("c_block_boundary_size");}
    if (k > 0 && r.coin(0.3)) {n = prev_n;}
    LD kap = m == 1 ? 1 : (LD)r.logu(1.0, is_float ? 30.0 : 999.0), sc = r.coin(0.3) ? 1.0 : r.logu(1e-6, 1e6);
    MatL A0(n, m); for (int i = 0; i < n; ++i) {for (int j = 0; j < m; ++j) {A0(i, j) = r.normal();}}
    Eigen::JacobiSVD<MatL> sv0(A0, Eigen::ComputeThinU | Eigen::ComputeThinV);
    VecL s(m); for (int i = 0; i < m; ++i) {s(i) = sc * (i == 0 ? 1 : i == m - 1 ? 1 / kap : (LD)r.logu((double)(1 / kap), 1.0));}
    MatL J = sv0.matrixU() * s.asDiagonal() * sv0.matrixV().transpose();
    int path = (int)r.range(0, 2);          // 0 svd, 1 cholesky, 2 weighted
    // the caller either asks for the buffers again, or (same size as before) writes through the
    // references it kept from the previous problem without calling anything in between
    const bool through_kept_refs = kJ && n == prev_n && r.coin();
    if (!through_kept_refs) {ls.setDataSize(n); kJ = &ls.getJ(); kY = &ls.getY(); kW = &ls.getW();} else {c.cat("c_written_through_kept_references");}
    prev_n = n;
    MatL Jr(n, m); VecL w(n);
    for (int i = 0; i < n; ++i) {
      (*kW)(i) = path == 2 ? (S)r.logu(0.1, 10.0) : S(1); w(i) = (LD)(*kW)(i);
      for (int j = 0; j < m; ++j) {(*kJ)(i, j) = (S)J(i, j); Jr(i, j) = (LD)(*kJ)(i, j);}
      (*kY)(i) = (S)r.normal();
    }
    // (poison through the references in hand: a non-const getJ() call is itself an API event)
    for (int i = n; i < kJ->rows(); ++i) {for (int j = 0; j < m; ++j) {(*kJ)(i, j) = (S)1e30;} (*kY)(i) = (S)1e30; (*kW)(i) = (S)1e30;}
    VecL a(m);
    typename romea::core::LeastSquares<S>::Matrix Ad = romea::core::LeastSquares<S>::Matrix::Zero(m, m);
    bool identity = r.coin(0.25);
    any_nonidentity = any_nonidentity || !identity;
    for (int i = 0; i < m; ++i) {Ad(i, i) = identity ? S(1) : (S)r.logu(1e-3, 1e3); a(i) = (LD)Ad(i, i);}
    // call order: the preconditioner is configured before the solve, or the problem is solved under
    // another one and the solver is re-configured between the solve and the covariance query (the
    // covariance is that of the estimate the solver would now return: current A on both sides)
    const bool reconfigured_after_solve = r.coin(0.25);
    VecL a_at_solve = a;
    if (reconfigured_after_solve) {
      typename romea::core::LeastSquares<S>::Matrix A0p = romea::core::LeastSquares<S>::Matrix::Identity(m, m);
      if (r.coin()) {for (int i = 0; i < m; ++i) {A0p(i, i) = (S)r.logu(1e-3, 1e3);}}
      for (int i = 0; i < m; ++i) {a_at_solve(i) = (LD)A0p(i, i);}
      ls.setPreconditionner(A0p);
      c.cat("c_preconditioner_set_between_solve_and_covariance");
    } else {ls.setPreconditionner(Ad);}
    if (path == 0) {ls.estimateUsingSVD();} else if (path == 1) {ls.estimateUsingCholeskyDecomposition();} else {ls.weightedEstimate();}
    if (reconfigured_after_solve) {ls.setPreconditionner(Ad);}
    trace += std::string(k ? "," : "") + (path == 0 ? "svd" : path == 1 ? "cholesky" : "weighted") + ":" + std::to_string(n);
    h = vh::hash_add(h, (double)n); h = vh::hash_add(h, (double)J(0, 0));
    S var = (S)r.logu(1e-6, 1e3);
    MatL rep = ls.computeEstimateCovariance(var).template cast<LD>();
    if (r.coin(0.3)) {rep = ls.computeEstimateCovariance(var).template cast<LD>();}     // asking twice changes nothing
    if (path == 2) {Jr = w.asDiagonal() * Jr;}
    MatL JtJ = Jr.transpose() * Jr;
    Eigen::JacobiSVD<MatL> sv(Jr);
    LD cond = (sv.singularValues()(0) / sv.singularValues()(m - 1)); cond *= cond;
    MatL inv = JtJ.inverse();
    MatL expct = (LD)var * a.asDiagonal() * inv * a.asDiagonal();
    auto params = [&]() {return vh::Params{{"m", (double)m}, {"n", (double)n}, {"cond_JtJ", (double)cond}, {"is_float", (double)is_float}, {"path", (double)path}, {"step", (double)k}};};
    if (64 * eps * cond >= 1e-2L) {c.skip("c:vacuous_64eps_cond"); continue;}
    c.cat(k == 0 ? "c_first_problem_on_solver" : "c_later_problem_on_reused_solver");
    c.cat(path == 0 ? "c_path_svd" : path == 1 ? "c_path_cholesky" : "c_path_weighted");
    // rounding: the explicit inverse carries eps cond relative error; scaled entry-wise by a_i a_j
    LD tol = 64 * eps * cond * (LD)var * (a.asDiagonal() * inv.cwiseAbs() * a.asDiagonal()).norm();
    LD cov_err = (rep - expct).norm();
    if (reconfigured_after_solve) {
      // both symmetric readings are accepted: A as configured now (what the library does) or as it
      // was when the problem was solved; a mixture of the two is neither
      MatL expct_at_solve = (LD)var * a_at_solve.asDiagonal() * inv * a_at_solve.asDiagonal();
      LD tol_at_solve = 64 * eps * cond * (LD)var * (a_at_solve.asDiagonal() * inv.cwiseAbs() * a_at_solve.asDiagonal()).norm();
      if (tol_at_solve > 0 && (rep - expct_at_solve).norm() / tol_at_solve < cov_err / tol) {cov_err = (rep - expct_at_solve).norm() / tol_at_solve * tol;}
    }
    c.expect_le("c.covariance_is_v_A_invJtJ_At", cov_err, tol, "ls_covariance_mismatch", params, [&]() {
        return vh::J().s("part", "c").s("history(path:rows)", trace).raw("reported", vh::jmat(rep)).raw("expected", vh::jmat(expct)).f("cond", cond).str();
      });
  }
  c.distinct(h, any_nonidentity);
  c.sample("c_ls_covariance", [&]() {return vh::J().s("part", "c").f("m", m).boolean("float", is_float).s("history(path:rows)", trace).str();});
}

static void one_case(vh::Ctx & c, uint64_t idx)
{
  vh::Rng r(c.seed, idx);
  switch (idx % 3) {
    case 0: case_rotation(c, r); break;
    case 1: case_pose(c, r); break;
    default: if (r.coin()) {case_ls<float>(c, r, true);} else {case_ls<double>(c, r, false);}
  }
}

int main(int argc, char ** argv)
{
  return vh::run(argc, argv, "C12", {120000, 6000000}, one_case);
}
