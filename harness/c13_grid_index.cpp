// C13  Grid index mapping puts each in-range point in the in-bounds cell containing it.
//
// The statement is checked as written, on the library's own outputs, with exact (long double)
// arithmetic on the returned values; nothing of the implementation's origin/floor/ceil formulas
// is recomputed:
//   in_bounds      computeCellIndexes(p)[d] < getNumberOfCellsAlongAxes()[d]      (exact)
//   half_cell      |p[d] - centre(idx)[d]| <= res/2 + 16 eps S_d                  (S_d = max|bound_d| + 2 res)
//   centre_maps    computeCellIndexes(computeCellCenterPosition(I)) == I          (exact)
//   spacing        |c[i+1] - c[i] - res| <= 16 eps S_d
//   cover          c[0] - res/2 <= lo_d + 16 eps S_d, c[last] + res/2 >= hi_d - 16 eps S_d
// ("cover" = the union of the cells reaches both bounds; the library snaps cell centres to
// multiples of the resolution, so the first cell need not *contain* lo -- not demanded.)
//
// Exact regime (DESIGN 2.6(3a)): resolution a power of two, bounds and point coordinate on the
// lattice (res/4) Z with magnitudes far below 2^mantissa lattice steps: every intermediate of any
// straightforward implementation is exactly representable, so the tolerances above are ZERO there
// (oracles exact.half_cell / exact.spacing / exact.cover).
//
// Rounding bounds behind the generic tolerances (u = eps/2, centre c_n = fl(O + fl((n+.5) res)),
// index n = trunc(fl(fl(p - O)/res))): |c_n - (O + (n+.5)res)| <= u(|prod_n| + |c_n|) <= 3uS, the
// quotient costs 2u(n+1)res <= 4uS, hence excess over res/2 <= 7uS = 3.5 eps S (tolerance 16 eps S);
// consecutive centres differ from res by <= 6uS = 3 eps S (tolerance 16 eps S).
//
// "at most 1e7 cells" is honoured in both possible readings (per axis and in total): the product of
// the per-axis cell counts is kept <= 1e7, large axes (up to 2e6 cells, the float quotient regime)
// are paired with one/two-cell axes.
#include <Eigen/Core>
#include "romea_core_common/containers/grid/GridIndexMapping.hpp"
#include <memory>
#include "vh.hpp"

typedef long double LD;

namespace
{

enum Kind {GENERIC = 0, MULTIPLE, HALF_MULTIPLE, TINY, LIMITS, INSIDE_ONE_CELL};
static const char * const KIND_NAME[] = {"generic", "multiple", "half_multiple", "tiny", "limits",
  "inside_one_cell"};

template<class S> struct Tr;
template<> struct Tr<float> {static constexpr int bits = 32; static constexpr int mant = 24;};
template<> struct Tr<double> {static constexpr int bits = 64; static constexpr int mant = 53;};

template<class S> inline S clampS(S v, S lo, S hi) {return v < lo ? lo : (v > hi ? hi : v);}

inline bool on_lattice(LD x, LD g) {return fmodl(x, g) == 0.0L;}

// ---- resolution: dyadic / decimal / generic, always inside [1e-3, 10] as a real number
template<class S> S pick_res(vh::Rng & r, int & rkind)
{
  int k = (int)r.range(0, 9);
  S res;
  if (k <= 2) {
    rkind = 0; res = (S)std::ldexp(1.0, (int)r.range(-9, 3));
  } else if (k <= 5) {
    rkind = 1;
    static const double D[] = {1e-3, 2e-3, 5e-3, 0.01, 0.02, 0.025, 0.05, 0.1, 0.2, 0.25, 0.3, 0.5,
      1.0, 2.0, 2.5, 3.0, 5.0, 7.0, 10.0};
    res = (S)D[r.range(0, (int)(sizeof D / sizeof D[0]) - 1)];
  } else {
    rkind = 2; res = (S)r.logu(1e-3, 10.0);
  }
  while ((LD)res < 1e-3L) {res = std::nextafter(res, (S)1);}
  while ((LD)res > 10.0L) {res = std::nextafter(res, (S)0);}
  return res;
}

// number of resolution steps an axis may span, given the cap
inline LD draw_span(vh::Rng & r, LD mcap)
{
  if (mcap <= 1) {return mcap * r.uni();}
  double u = r.uni();
  LD m;
  if (u < 0.10) {m = r.uni(0.0, 3.0);} else if (u < 0.85) {
    m = r.logu(1.0, (double)std::min<LD>(mcap, 3000));
  } else {
    m = r.logu((double)std::max<LD>(1, mcap / 100), (double)mcap);
  }
  return std::min(m, mcap);
}

// one axis of a general interval: bounds in [-1e3,1e3], spanning about m (<= mcap) cells
template<class S>
void gen_axis(vh::Rng & r, int kind, LD mcap, S res, S & lo, S & hi)
{
  const LD R = res;
  const S L = (S)-1000, H = (S)1000;
  LD m = draw_span(r, mcap);
  LD w = std::min<LD>(m * R, 2000);
  switch (kind) {
    case MULTIPLE: case HALF_MULTIPLE: {
        LD h = kind == HALF_MULTIPLE ? 0.5L : 0.0L;
        int64_t kmin = (int64_t)ceill(-1000 / R - h), kmax = (int64_t)floorl(1000 / R - h);
        int64_t span = std::max<int64_t>(r.coin(0.05) ? 0 : 1, llroundl(m));
        if (span > (int64_t)mcap) {span = (int64_t)mcap;}
        if (span > kmax - kmin) {span = kmax - kmin;}
        int64_t k0;
        int pm = (int)r.range(0, 2);
        if (pm == 0) {k0 = r.range(kmin, kmax - span);} else if (pm == 1) {
          k0 = std::max(kmin, std::min(kmax - span, r.range(-span, 0)));
        } else {k0 = r.coin() ? kmin : kmax - span;}
        int64_t k1 = k0 + span;
        if (r.coin()) {      // as a user would compute it in the grid's own scalar type
          lo = (S)((S)((LD)k0 + h) * res); hi = (S)((S)((LD)k1 + h) * res);
        } else {             // nearest representable value to the real multiple
          lo = (S)(((LD)k0 + h) * R); hi = (S)(((LD)k1 + h) * R);
        }
      } break;
    case TINY: {
        LD wt = r.coin(0.15) ? 0.0L : R * r.logu(1e-6, 1.0);
        wt = std::min(wt, mcap * R);
        int pm = (int)r.range(0, 3);
        LD l;
        if (pm == 0) {l = -1000 + (2000 - wt) * r.uni();} else {
          LD kk = (LD)r.range((int64_t)ceill(-999 / R), (int64_t)floorl(999 / R));
          if (r.coin(0.3)) {kk = (LD)r.range(-2, 2);}
          LD a = (kk + (pm == 2 ? 0.5L : 0.0L)) * R;       // straddle a centre (pm 1/3) or a border (pm 2)
          l = (pm == 3) ? a : a - wt * r.uni();
        }
        lo = (S)l; hi = (S)(l + wt);
      } break;
    case INSIDE_ONE_CELL: {   // strictly between a centre and the next border: exactly two cells
        LD kk = (LD)r.range((int64_t)ceill(-990 / R), (int64_t)floorl(990 / R));
        lo = (S)((kk + 0.30L) * R); hi = (S)((kk + 0.45L) * R);
      } break;
    case LIMITS: {
        int which = (int)r.range(0, 2);
        if (which == 2 && 2000 / R > mcap) {which = (int)r.range(0, 1);}
        if (which == 0) {lo = L; hi = (S)(-1000 + w);} else if (which == 1) {
          hi = H; lo = (S)(1000 - w);
        } else {lo = L; hi = H;}
      } break;
    default: {
        int pm = (int)r.range(0, 3);
        LD l;
        if (pm == 0) {l = -1000 + (2000 - w) * r.uni();} else if (pm == 1) {l = -w * r.uni();} else {
          LD room = 1000 - w;
          LD off = room > 1e-3L ? std::min<LD>(room, r.logu(1e-3, 1e3)) : 0.0L;
          l = r.coin() ? off : -off - w;
        }
        lo = (S)l; hi = (S)(l + w);
      }
  }
  lo = clampS(lo, L, H); hi = clampS(hi, L, H);
  if (hi < lo) {std::swap(lo, hi);}
}

// one coordinate of a test point inside [lo,hi]
template<class S>
S gen_coord(vh::Rng & r, S lo, S hi, S res, const std::vector<S> & tab, size_t ncell)
{
  const LD R = res;
  size_t n = std::min(tab.size(), ncell);
  auto cell = [&]() -> size_t {
      if (n <= 4 || r.coin(0.3)) {
        size_t e = (size_t)r.range(0, 3);
        size_t i = e < 2 ? e : n - 1 - (e - 2);
        return n ? std::min(i, n - 1) : 0;
      }
      return (size_t)r.range(0, (int64_t)n - 1);
    };
  int64_t klo = (int64_t)floorl((LD)lo / R), khi = (int64_t)ceill((LD)hi / R);
  int mode = (int)r.range(0, 11);
  if (n == 0 && (mode >= 4 && mode <= 6)) {mode = 2;}
  S v;
  switch (mode) {
    case 0: v = lo; break;
    case 1: v = hi; break;
    case 2: case 3: v = (S)((LD)lo + ((LD)hi - (LD)lo) * r.uni()); break;
    case 4: v = tab[cell()] + res / 2; break;                 // upper border of a cell
    case 5: v = tab[cell()] - res / 2; break;                 // lower border of a cell
    case 6: v = tab[cell()]; break;                           // a centre
    case 7: v = (S)r.range(klo, khi) * res; break;            // multiple of res, scalar arithmetic
    case 8: v = ((S)r.range(klo, khi) + (S)0.5) * res; break; // half multiple, scalar arithmetic
    case 9: {
        LD o = R * r.logu(1e-8, 2.0);
        v = r.coin() ? (S)((LD)lo + o) : (S)((LD)hi - o);
      } break;
    case 10: {                                                // lattice (res/4) Z
        LD g = R / 4;
        int64_t jlo = (int64_t)ceill((LD)lo / g), jhi = (int64_t)floorl((LD)hi / g);
        v = jlo <= jhi ? (S)((LD)r.range(jlo, jhi) * g) : lo;
      } break;
    default: v = (S)(((LD)r.range(klo, khi) + 0.5L) * R);     // nearest value to a real border
  }
  if (r.coin(0.3)) {
    int steps = (int)r.range(1, 3);
    S dir = r.coin() ? (S)4000 : (S)-4000;
    for (int i = 0; i < steps; ++i) {v = std::nextafter(v, dir);}
  }
  return clampS(v, lo, hi);
}

struct Rec
{
  LD obs = 0, tol = 0, ratio = -1;
  int axis = -1;
  LD p = 0, centre = 0;
  uint64_t idx = 0, cnt = 0;
  void upd(LD o, LD t, int ax, LD pp, LD cc, uint64_t ii)
  {
    ++cnt;
    if (o < 0) {o = 0;}
    LD q = t > 0 ? o / t : (o > 0 ? (LD)INFINITY : 0.0L);
    if (!(o == o)) {q = INFINITY;}
    if (q > ratio) {ratio = q; obs = o; tol = t; axis = ax; p = pp; centre = cc; idx = ii;}
  }
};

struct Flag
{
  uint64_t cnt = 0;
  bool bad = false;
  int axis = -1;
  std::string detail;
};

template<class S, size_t D>
struct Cfg
{
  S res = 0;
  int rkind = 0;
  S lo[D], hi[D];
  int kinds[D];
  const char * gcat = "";
  bool symmetric = false;
  S range = 0;
  bool trivial = false;
  uint64_t hash = 0;
};

// draws resolution + extent + constructor form; false when the draw falls outside the quantifier
template<class S, size_t D>
bool gen_cfg(vh::Ctx & c, vh::Rng & r, const char * tname, Cfg<S, D> & out)
{
  c.cat(tname);
  int rkind;
  const S res = pick_res<S>(r, rkind);
  const LD R = res;
  static const char * const RK[] = {"res_dyadic", "res_decimal", "res_generic"};
  c.cat(RK[rkind]);

  // ---------------------------------------------------------------- extent
  S lo[D], hi[D];
  int kinds[D];
  const char * gcat;
  bool symmetric = false;
  S range = 0;
  const LD axis_cap = std::min<LD>(2000 / R, 2.0e6L);
  int gk = (int)r.range(0, 13);
  if (gk <= 2) {
    // symmetric maximal-range constructor: the same count on every axis
    symmetric = true; gcat = "symmetric";
    LD mcap = std::min<LD>(axis_cap, floorl(powl(1e7L, 1.0L / D)) - 4);
    int sk = (int)r.range(0, 4);
    LD m = draw_span(r, mcap);
    if (sk == 0 || sk == 4) {range = (S)(m * R / 2);} else if (sk == 1 || sk == 2) {
      LD h = sk == 2 ? 0.5L : 0.0L;
      int64_t k = std::max<int64_t>(1, llroundl(m / 2));
      if (2 * (k + 1) > (int64_t)mcap) {k = std::max<int64_t>(0, (int64_t)(mcap / 2) - 1);}
      range = r.coin() ? (S)((S)((LD)k + h) * res) : (S)(((LD)k + h) * R);
    } else {
      range = (2000 / R <= mcap) ? (S)1000 : (S)(mcap * R / 2);
    }
    if (!(range > 0)) {range = (S)(R * r.logu(1e-3, 0.4));}
    range = clampS(range, (S)0, (S)1000);
    for (size_t d = 0; d < D; ++d) {lo[d] = -range; hi[d] = range; kinds[d] = GENERIC;}
  } else {
    static const char * const GC[] = {"generic", "multiple", "half_multiple", "tiny", "limits", "mixed"};
    int g = gk <= 5 ? 0 : gk <= 7 ? 1 : gk <= 9 ? 2 : gk == 10 ? 3 : gk == 11 ? 4 : 5;
    gcat = GC[g];
    // axes handled in random order; the first gets the large budget
    size_t order[D];
    for (size_t d = 0; d < D; ++d) {order[d] = d;}
    for (size_t d = D - 1; d > 0; --d) {std::swap(order[d], order[(size_t)r.range(0, d)]);}
    LD remaining = 1e7L;
    for (size_t j = 0; j < D; ++j) {
      size_t d = order[j];
      size_t left = D - 1 - j;                       // axes still to come, at least 2 cells each
      LD mcap = std::min<LD>(axis_cap, floorl(remaining / powl(2.0L, (LD)left)) - 3);
      int k = g < 5 ? g : (int)r.range(0, 4);
      if (mcap < 3) {k = INSIDE_ONE_CELL;}
      kinds[d] = k;
      gen_axis<S>(r, k, std::max<LD>(mcap, 0), res, lo[d], hi[d]);
      LD n = ceill((LD)hi[d] / R) - floorl((LD)lo[d] / R) + 1;
      remaining = floorl(remaining / n);
    }
  }
  c.cat(gcat);

  // reference cell count in exact arithmetic, only to honour the quantifier's "at most 1e7 cells"
  LD prod = 1;
  for (size_t d = 0; d < D; ++d) {prod *= ceill((LD)hi[d] / R) - floorl((LD)lo[d] / R) + 1;}
  if (prod > 1e7L || !(prod >= 1)) {c.skip("grid:more_than_1e7_cells"); return false;}

  // trivial = what the unit tests sample: unit resolution, small integer bounds
  uint64_t h = vh::hash_doubles({(double)Tr<S>::bits, (double)D, symmetric ? 1.0 : 0.0, (double)res});
  for (size_t d = 0; d < D; ++d) {h = vh::hash_add(vh::hash_add(h, lo[d]), hi[d]);}
  bool all_small_int = true;
  for (size_t d = 0; d < D; ++d) {
    all_small_int = all_small_int && lo[d] == std::floor(lo[d]) && hi[d] == std::floor(hi[d]) &&
      std::fabs(lo[d]) <= 3 && std::fabs(hi[d]) <= 3;
  }
  const bool trivial = (res == (S)1) && all_small_int;

  out.res = res; out.rkind = rkind; out.gcat = gcat; out.symmetric = symmetric; out.range = range;
  out.trivial = trivial; out.hash = h;
  for (size_t d = 0; d < D; ++d) {out.lo[d] = lo[d]; out.hi[d] = hi[d]; out.kinds[d] = kinds[d];}
  return true;
}

template<class S, size_t D>
romea::core::GridIndexMapping<S, D> make_grid(const Cfg<S, D> & g)
{
  using G = romea::core::GridIndexMapping<S, D>;
  if (g.symmetric) {return G(g.range, g.res);}
  typename G::PointType l, u;
  for (size_t d = 0; d < D; ++d) {l[d] = g.lo[d]; u[d] = g.hi[d];}
  return G(romea::core::Interval<S, D>(l, u), g.res);
}

// all oracles of the statement, on mapping object m which is claimed to represent configuration g.
// phase / assign_mode describe the history of the object (0 = never held another configuration).
template<class S, size_t D>
void check_grid(
  vh::Ctx & c, vh::Rng & r, const char * tname, const Cfg<S, D> & g,
  const romea::core::GridIndexMapping<S, D> & m, const char * phase, int assign_mode)
{
  using G = romea::core::GridIndexMapping<S, D>;
  using Pt = typename G::PointType;
  using Ix = typename G::CellIndexes;
  const LD eps = std::numeric_limits<S>::epsilon();
  const int NP = c.tier == "thorough" ? 100 : 60;
  const S res = g.res;
  const LD R = res;
  const int rkind = g.rkind;
  const S * lo = g.lo;
  const S * hi = g.hi;
  const int * kinds = g.kinds;
  const char * gcat = g.gcat;
  const bool symmetric = g.symmetric;
  const S range = g.range;

  const Ix nc = m.getNumberOfCellsAlongAxes();
  {
    LD built = 1;
    for (size_t d = 0; d < D; ++d) {built *= (LD)nc[d];}
    if (built > 1e7L) {c.skip("grid:built_with_more_than_1e7_cells"); return;}
  }

  auto grid_json = [&]() {
      vh::J j;
      j.s("scalar", Tr<S>::bits == 32 ? "float" : "double").f("dim", (int)D).s("category", gcat)
      .s("object_history", phase)
      .s("ctor", symmetric ? "maximalRange" : "interval").f("res", res).f("range", range)
      .arr("lo", lo, lo + D).arr("hi", hi, hi + D);
      std::string k = "[";
      for (size_t d = 0; d < D; ++d) {k += (d ? "," : ""); k += vh::jstr(KIND_NAME[kinds[d]]);}
      j.raw("axis_kinds", k + "]");
      std::string s = "[";
      for (size_t d = 0; d < D; ++d) {s += (d ? "," : "") + std::to_string((uint64_t)nc[d]);}
      j.raw("ncells", s + "]");
      return j;
    };
  c.sample(std::string(tname) + "/" + gcat, [&]() {return grid_json().str();});

  // per-axis scale, tolerances, exact-regime flag
  LD Sc[D], tol_half[D], tol_sp[D];
  bool exact[D];
  bool any_exact = false;
  const LD g4 = R / 4;
  for (size_t d = 0; d < D; ++d) {
    Sc[d] = std::max(fabsl((LD)lo[d]), fabsl((LD)hi[d])) + 2 * R;
    exact[d] = rkind == 0 && on_lattice(lo[d], g4) && on_lattice(hi[d], g4) &&
      Sc[d] / g4 <= ldexpl(1.0L, Tr<S>::mant - 3);
    any_exact = any_exact || exact[d];
    tol_half[d] = 16 * eps * Sc[d];
    tol_sp[d] = 16 * eps * Sc[d];
    bool decisive = tol_half[d] < R / 4;
    c.count("axes_total");
    if (decisive) {c.count("axes_decisive");}
    if (Tr<S>::bits == 32) {c.count("float_axes_total"); if (decisive) {c.count("float_axes_decisive");}}
    c.maxi("max_cells_along_axis", (double)nc[d]);
    c.maxi(Tr<S>::bits == 32 ? "float_max_bound_over_res" : "double_max_bound_over_res", (double)(Sc[d] / R));
    if (nc[d] >= 100000) {c.cat("axis_ge_1e5_cells");}
    if (Tr<S>::bits == 32 && nc[d] >= 500000) {c.cat("float_axis_ge_5e5_cells");}
    if (lo[d] < 0 && hi[d] > 0) {c.cat("axis_straddles_zero");}
    if (hi[d] <= 0) {c.cat("axis_negative_only");}
    if (lo[d] == hi[d]) {c.cat("axis_zero_width");}
  }
  if (any_exact) {c.count("exact_regime_grids");}

  auto base_params = [&](int ax) {
      size_t d = ax >= 0 ? (size_t)ax : 0;
      return vh::Params{{"scalar_bits", (double)Tr<S>::bits}, {"dim", (double)D}, {"axis", (double)ax},
        {"symmetric_ctor", symmetric ? 1.0 : 0.0}, {"reassigned", (double)assign_mode}, {"res", (double)res}, {"lo", (double)lo[d]}, {"hi", (double)hi[d]},
        {"ncells", (double)nc[d]}, {"bound_over_res", (double)(Sc[d] / R)}, {"exact_regime", exact[d] ? 1.0 : 0.0}};
    };

  // ---------------------------------------------------------------- every cell has a centre
  const std::vector<S> * tab[D];
  bool tables_ok = true;
  for (size_t d = 0; d < D; ++d) {
    tab[d] = &m.getCellCentersPositionAlong(d);
    bool ok = nc[d] >= 1 && tab[d]->size() >= nc[d];
    tables_ok = tables_ok && ok;
    c.expect("cells_have_centres", ok, "missing_cell_centre", [&]() {return base_params((int)d);}, [&]() {
        return grid_json().f("axis", (int)d).f("table_size", (uint64_t)tab[d]->size()).str();
      });
  }
  if (!tables_ok) {return;}

  // ---------------------------------------------------------------- points of the closed extent
  Rec half_g, half_e;
  Flag inb;
  uint64_t npts = 0, npts_exact = 0;
  for (int k = 0; k < NP; ++k) {
    Pt p;
    if (k < (1 << D)) {
      for (size_t d = 0; d < D; ++d) {p[d] = ((k >> d) & 1) ? hi[d] : lo[d];}
    } else {
      for (size_t d = 0; d < D; ++d) {p[d] = gen_coord<S>(r, lo[d], hi[d], res, *tab[d], nc[d]);}
    }
    Ix ix = m.computeCellIndexes(p);
    ++npts; ++inb.cnt;
    bool in = true;
    for (size_t d = 0; d < D; ++d) {
      if (!(ix[d] < nc[d])) {
        in = false;
        if (!inb.bad) {
          inb.bad = true; inb.axis = (int)d;
          inb.detail = vh::J().raw("point", vh::jvec(p)).f("axis", (int)d).f("index", (uint64_t)ix[d])
            .f("ncells", (uint64_t)nc[d]).str();
        }
      }
    }
    if (!in) {continue;}
    Pt cc = m.computeCellCenterPosition(ix);
    for (size_t d = 0; d < D; ++d) {
      LD d1 = fabsl((LD)p[d] - (LD)cc[d]);
      LD d2 = fabsl((LD)p[d] - (LD)(*tab[d])[ix[d]]);
      LD ex = std::max(d1, d2) - R / 2;
      LD far = d1 >= d2 ? (LD)cc[d] : (LD)(*tab[d])[ix[d]];
      if (exact[d] && on_lattice(p[d], g4)) {
        half_e.upd(ex, 0.0L, (int)d, p[d], far, ix[d]); ++npts_exact;
      } else {
        half_g.upd(ex, tol_half[d], (int)d, p[d], far, ix[d]);
      }
    }
  }
  c.count("points_checked", npts);
  c.count("exact_regime_coordinates", npts_exact);
  c.expect("in_bounds", !inb.bad, "index_out_of_range", [&]() {return base_params(inb.axis);}, [&]() {
      return grid_json().raw("fail", inb.detail).str();
    });
  auto report = [&](const char * oracle, const char * kind, const Rec & w) {
      if (!w.cnt) {return;}
      c.expect_le(oracle, w.obs, w.tol, kind, [&]() {
          vh::Params p = base_params(w.axis);
          p.push_back({"p", (double)w.p});
          p.push_back({"excess_over_res", (double)(w.obs / R)});
          return p;
        }, [&]() {
          return grid_json().f("axis", w.axis).f("p", w.p).f("index", w.idx).f("centre", w.centre)
                 .f("excess", w.obs).str();
        });
    };
  report("half_cell", "point_far_from_cell_centre", half_g);
  report("exact.half_cell", "point_far_from_cell_centre", half_e);

  // ---------------------------------------------------------------- centres map back to their own indexes
  {
    Flag mb;
    int NT = 12;
    for (int k = 0; k < NT; ++k) {
      Ix I;
      for (size_t d = 0; d < D; ++d) {
        size_t n = nc[d];
        if (k == 0) {I[d] = 0;} else if (k == 1) {I[d] = n - 1;} else if (k == 2) {I[d] = (d % 2) ? n - 1 : 0;} else {
          size_t e = (size_t)r.range(0, 9);
          I[d] = e == 0 ? 0 : e == 1 ? n - 1 : e == 2 ? std::min<size_t>(1, n - 1) : e == 3 ? (n >= 2 ? n - 2 : 0) :
            (size_t)r.range(0, (int64_t)n - 1);
        }
      }
      Pt cc = m.computeCellCenterPosition(I);
      Ix back = m.computeCellIndexes(cc);
      ++mb.cnt;
      for (size_t d = 0; d < D; ++d) {
        if (back[d] != I[d] && !mb.bad) {
          mb.bad = true; mb.axis = (int)d;
          mb.detail = vh::J().raw("centre", vh::jvec(cc)).f("axis", (int)d).f("index", (uint64_t)I[d])
            .f("mapped_to", (uint64_t)back[d]).str();
        }
      }
    }
    c.count("centres_mapped_back", mb.cnt);
    c.expect("centre_maps_to_own_index", !mb.bad, "centre_not_mapped_to_own_index",
      [&]() {return base_params(mb.axis);}, [&]() {return grid_json().raw("fail", mb.detail).str();});
  }

  // ---------------------------------------------------------------- spacing and cover, per axis
  Rec sp_g, sp_e, cv_g, cv_e;
  Ix first = Ix::Zero(), last;
  for (size_t d = 0; d < D; ++d) {last[d] = nc[d] - 1;}
  Pt cfirst = m.computeCellCenterPosition(first), clast = m.computeCellCenterPosition(last);
  for (size_t d = 0; d < D; ++d) {
    const std::vector<S> & t = *tab[d];
    size_t n = nc[d];
    auto pair = [&](size_t i) {
        LD dev = fabsl(((LD)t[i + 1] - (LD)t[i]) - R);
        if (exact[d]) {sp_e.upd(dev, 0.0L, (int)d, t[i], t[i + 1], i);} else {
          sp_g.upd(dev, tol_sp[d], (int)d, t[i], t[i + 1], i);
        }
      };
    if (n >= 2) {
      if (n <= 200) {for (size_t i = 0; i + 1 < n; ++i) {pair(i);}} else {
        pair(0); pair(1); pair(n - 2); pair(n - 3);
        for (int k = 0; k < 96; ++k) {pair((size_t)r.range(0, (int64_t)n - 2));}
      }
    }
    // the union of the cells reaches both bounds (first cell's lower edge, last cell's upper edge)
    LD c0 = std::max((LD)cfirst[d], (LD)t[0]), c1 = std::min((LD)clast[d], (LD)t[n - 1]);
    LD miss_lo = (c0 - R / 2) - (LD)lo[d], miss_hi = (LD)hi[d] - (c1 + R / 2);
    if (exact[d]) {
      cv_e.upd(miss_lo, 0.0L, (int)d, lo[d], c0, 0); cv_e.upd(miss_hi, 0.0L, (int)d, hi[d], c1, n - 1);
    } else {
      cv_g.upd(miss_lo, tol_sp[d], (int)d, lo[d], c0, 0); cv_g.upd(miss_hi, tol_sp[d], (int)d, hi[d], c1, n - 1);
    }
  }
  c.count("centre_pairs_checked", sp_g.cnt + sp_e.cnt);
  report("spacing", "centre_spacing", sp_g);
  report("exact.spacing", "centre_spacing", sp_e);
  report("cover", "bounds_not_covered", cv_g);
  report("exact.cover", "bounds_not_covered", cv_e);
}

// light uses of an object that stop short of the full oracles (to vary what the object has
// already served before it is assigned from / assigned to)
template<class S, size_t D>
void touch_indexes(const romea::core::GridIndexMapping<S, D> & m, const Cfg<S, D> & g)
{
  typename romea::core::GridIndexMapping<S, D>::PointType p;
  for (size_t d = 0; d < D; ++d) {p[d] = g.lo[d];}
  volatile size_t sink = m.computeCellIndexes(p)[0];
  (void)sink;
}
template<class S, size_t D>
void touch_centres(const romea::core::GridIndexMapping<S, D> & m)
{
  volatile size_t sink = m.getCellCentersPositionAlong(D - 1).size();
  (void)sink;
  if (m.getNumberOfCellsAlongAxes().minCoeff() >= 1 && m.getCellCentersPositionAlong(0).size() >= 1) {
    typename romea::core::GridIndexMapping<S, D>::CellIndexes z =
      romea::core::GridIndexMapping<S, D>::CellIndexes::Zero();
    bool ok = true;
    for (size_t d = 0; d < D; ++d) {ok = ok && m.getCellCentersPositionAlong(d).size() >= 1;}
    if (ok) {volatile S s2 = m.computeCellCenterPosition(z)[0]; (void)s2;}
  }
}

// One case = one mapping OBJECT and its history: built (directly, by copy, or default-constructed
// then assigned), used (not at all / indexes only / centres only / all oracles), then -- in about a
// third of the cases -- assigned a NEW configuration (from a never-queried temporary, from a source
// whose indexes / centres were already used, from a fully checked source, by move, twice in a row,
// or from a copy of itself) and checked again with all oracles against the new parameters.
template<class S, size_t D>
void grid_case(vh::Ctx & c, vh::Rng & r, const char * tname)
{
  using G = romea::core::GridIndexMapping<S, D>;
  Cfg<S, D> g1;
  if (!gen_cfg<S, D>(c, r, tname, g1)) {return;}

  int how = (int)r.range(0, 9);      // 0: default-construct then assign, 1: copy, else direct
  std::unique_ptr<G> grid;
  if (how == 0) {grid.reset(new G()); *grid = make_grid(g1);} else if (how == 1) {
    G tmp = make_grid(g1);
    if (r.coin()) {touch_centres<S, D>(tmp);}
    grid.reset(new G(tmp));
  } else {grid.reset(new G(make_grid(g1)));}

  const bool reassign = r.coin(0.34);
  // what the object has served before the re-assignment (always everything when there is none)
  const int pre = reassign ? (int)r.range(0, 5) : 5;    // 0 nothing, 1 indexes, 2 centres, 3..5 all oracles
  if (pre >= 3) {
    check_grid<S, D>(c, r, tname, g1, *grid, how == 0 ? "default_constructed_then_assigned" :
      how == 1 ? "copy_constructed" : "constructed", 0);
  } else if (pre == 1) {touch_indexes<S, D>(*grid, g1);} else if (pre == 2) {touch_centres<S, D>(*grid);}

  uint64_t h = g1.hash;
  bool trivial = g1.trivial;
  if (reassign) {
    Cfg<S, D> g2;
    int mode = (int)r.range(1, 9);
    bool have = true;
    if (mode == 9) {g2 = g1;} else {have = gen_cfg<S, D>(c, r, tname, g2);}
    if (have) {
      const char * phase = "";
      switch (mode) {
        case 1: case 2: case 3:
          phase = "reassigned_from_fresh_temporary"; *grid = make_grid(g2); break;
        case 4: {
            phase = "reassigned_from_source_with_indexes_used";
            G src = make_grid(g2); touch_indexes<S, D>(src, g2); *grid = src;
          } break;
        case 5: {
            phase = "reassigned_from_source_with_centres_used";
            G src = make_grid(g2); touch_centres<S, D>(src); *grid = src;
          } break;
        case 6: {
            phase = "reassigned_from_checked_source";
            G src = make_grid(g2);
            check_grid<S, D>(c, r, tname, g2, src, "constructed", 0);
            *grid = src;
          } break;
        case 7: {
            phase = "reassigned_by_move";
            G src = make_grid(g2);
            if (r.coin()) {touch_centres<S, D>(src);}
            *grid = std::move(src);
          } break;
        case 8: {
            // two assignments in a row; the intermediate configuration is used or not
            phase = "reassigned_twice";
            Cfg<S, D> gm;
            if (gen_cfg<S, D>(c, r, tname, gm)) {
              *grid = make_grid(gm);
              if (r.coin()) {touch_centres<S, D>(*grid);}
            }
            *grid = make_grid(g2);
          } break;
        default: {
            phase = "reassigned_from_copy_of_itself";
            G cp(*grid);
            if (r.coin()) {touch_centres<S, D>(cp);}
            *grid = cp;
            G & self = *grid;
            *grid = self;
          }
      }
      c.cat("reassigned");
      c.cat(phase);
      c.cat(pre == 0 ? "reassigned_target_never_used" : pre == 1 ? "reassigned_target_indexes_used" :
        pre == 2 ? "reassigned_target_centres_used" : "reassigned_target_fully_checked");
      check_grid<S, D>(c, r, tname, g2, *grid, phase, mode);
      h = vh::hash_addi(vh::hash_addi(h, g2.hash), (uint64_t)(mode * 8 + pre));
      trivial = trivial && g2.trivial;
    }
  }
  c.distinct(h, !trivial);
}

void one_case(vh::Ctx & c, uint64_t idx)
{
  vh::Rng r(c.seed, idx);
  switch (idx % 4) {
    case 0: grid_case<float, 2>(c, r, "float2"); break;
    case 1: grid_case<double, 2>(c, r, "double2"); break;
    case 2: grid_case<float, 3>(c, r, "float3"); break;
    default: grid_case<double, 3>(c, r, "double3");
  }
}

}  // namespace

int main(int argc, char ** argv)
{
  return vh::run(argc, argv, "C13", {120000, 2000000}, one_case, [](vh::Ctx & c) {
      // DESIGN C13: the allowance is decisive (16 eps S < res/4, an off-by-one cell cannot hide in it)
      // on at least 90 % of the axes this shard generated -- counted on the float axes alone, the
      // double axes are always decisive; otherwise the counter stays 0 and vcheck reports the run
      // as inconclusive.  (Shards are case index mod nshards and the scalar type is case index mod 4,
      // so with 4 or 16 shards half of them see no float axis and never add to the counter.)
      uint64_t t = c.counters["axes_total"], d = c.counters["axes_decisive"];
      uint64_t ft = c.counters["float_axes_total"], fd = c.counters["float_axes_decisive"];
      if (t > 0 && 10 * d >= 9 * t && ft > 0 && 10 * fd >= 9 * ft) {c.count("shards_with_ge_90pct_decisive_axes");}
    });
}
