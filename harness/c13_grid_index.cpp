// C13  Grid index mapping puts each in-range point in the in-bounds cell containing it.
//
// The statement is checked as written, on the library's own outputs, with exact (long double)
// arithmetic on the returned values; nothing of the implementation's origin/floor/ceil formulas
// is recomputed:
//   in_bounds      computeCellIndexes(p)[d] < getNumberOfCellsAlongAxes()[d]      (exact)
//   half_cell      |p[d] - centre(idx)[d]| <= res/2 + 16 eps S_d                  (S_d = max|bound_d| + 2 res)
//   centre_maps    computeCellIndexes(computeCellCenterPosition(I)) == I          (exact)
//   spacing        |c[i+1] - c[i] - res| <= 16 eps S_d
//   cover          c[0] - res/2 <= lo_d + 16 eps S_d, c[last] + res/2 >= hi_d - 16 eps S_d
// ("cover" = the union of the cells reaches both bounds; the library snaps cell centres to
// multiples of the resolution, so the first cell need not *contain* lo -- not demanded.)
//
// Exact regime (DESIGN 2.6(3a)): resolution a power of two, bounds and point coordinate on the
// lattice (res/4) Z with magnitudes far below 2^mantissa lattice steps: every intermediate of any
// straightforward implementation is exactly representable, so the tolerances above are ZERO there
// (oracles exact.half_cell / exact.spacing / exact.cover).
//
// Rounding bounds behind the generic tolerances (u = eps/2, centre c_n = fl(O + fl((n+.5) res)),
// index n = trunc(fl(fl(p - O)/res))): |c_n - (O + (n+.5)res)| <= u(|prod_n| + |c_n|) <= 3uS, the
// quotient costs 2u(n+1)res <= 4uS, hence excess over res/2 <= 7uS = 3.5 eps S (tolerance 16 eps S);
// consecutive centres differ from res by <= 6uS = 3 eps S (tolerance 16 eps S).
//
// "at most 1e7 cells" is honoured in both possible readings (per axis and in total): the product of
// the per-axis cell counts is kept <= 1e7, large axes (up to 2e6 cells, the float quotient regime)
// are paired with one/two-cell axes.
#include <Eigen/Core>
#include "romea_core_common/containers/grid/GridIndexMapping.hpp"
#include <iomanip>
#include <memory>
#include <sstream>
#include "vh.hpp"

typedef long double LD;

namespace
{

enum Kind {GENERIC = 0, MULTIPLE, HALF_MULTIPLE, TINY, LIMITS, INSIDE_ONE_CELL, ZERO_SPECIAL, INTEGER, LATTICE};
static const char * const KIND_NAME[] = {"generic", "multiple", "half_multiple", "tiny", "limits",
  "inside_one_cell", "zero_special", "integer", "lattice"};

// values random reals never produce: signed zeros, denormals, the smallest normal
template<class S> S tiny_special(vh::Rng & r)
{
  const S dm = std::numeric_limits<S>::denorm_min(), mn = std::numeric_limits<S>::min();
  switch ((int)r.range(0, 7)) {
    case 0: return (S)0.0;
    case 1: return -(S)0.0;
    case 2: return dm;
    case 3: return -dm;
    case 4: return mn;
    case 5: return -mn;
    case 6: return (S)(dm * (S)r.range(2, 1000));
    default: return -(S)(mn / 2);
  }
}

template<class S> struct Tr;
template<> struct Tr<float> {static constexpr int bits = 32; static constexpr int mant = 24;};
template<> struct Tr<double> {static constexpr int bits = 64; static constexpr int mant = 53;};

template<class S> inline S clampS(S v, S lo, S hi) {return v < lo ? lo : (v > hi ? hi : v);}

inline bool on_lattice(LD x, LD g) {return fmodl(x, g) == 0.0L;}

// ---- resolution: dyadic / decimal / generic, always inside [1e-3, 10] as a real number
template<class S> S pick_res(vh::Rng & r, int & rkind)
{
  int k = (int)r.range(0, 9);
  S res;
  if (k <= 2) {
    rkind = 0; res = (S)std::ldexp(1.0, (int)r.range(-9, 3));
  } else if (k <= 5) {
    rkind = 1;
    static const double D[] = {1e-3, 2e-3, 5e-3, 0.01, 0.02, 0.025, 0.05, 0.1, 0.2, 0.25, 0.3, 0.5,
      1.0, 2.0, 2.5, 3.0, 5.0, 7.0, 10.0};
    res = (S)D[r.range(0, (int)(sizeof D / sizeof D[0]) - 1)];
  } else {
    rkind = 2; res = (S)r.logu(1e-3, 10.0);
  }
  while ((LD)res < 1e-3L) {res = std::nextafter(res, (S)1);}
  while ((LD)res > 10.0L) {res = std::nextafter(res, (S)0);}
  return res;
}

// number of resolution steps an axis may span, given the cap
inline LD draw_span(vh::Rng & r, LD mcap)
{
  if (mcap <= 1) {return mcap * r.uni();}
  double u = r.uni();
  LD m;
  if (u < 0.10) {m = r.uni(0.0, 3.0);} else if (u < 0.85) {
    m = r.logu(1.0, (double)std::min<LD>(mcap, 3000));
  } else {
    m = r.logu((double)std::max<LD>(1, mcap / 100), (double)mcap);
  }
  return std::min(m, mcap);
}

// one axis of a general interval: bounds in [-1e3,1e3], spanning about m (<= mcap) cells
template<class S>
void gen_axis(vh::Rng & r, int kind, LD mcap, S res, S & lo, S & hi)
{
  const LD R = res;
  const S L = (S)-1000, H = (S)1000;
  LD m = draw_span(r, mcap);
  LD w = std::min<LD>(m * R, 2000);
  switch (kind) {
    case MULTIPLE: case HALF_MULTIPLE: {
        LD h = kind == HALF_MULTIPLE ? 0.5L : 0.0L;
        int64_t kmin = (int64_t)ceill(-1000 / R - h), kmax = (int64_t)floorl(1000 / R - h);
        int64_t span = std::max<int64_t>(r.coin(0.05) ? 0 : 1, llroundl(m));
        if (span > (int64_t)mcap) {span = (int64_t)mcap;}
        if (span > kmax - kmin) {span = kmax - kmin;}
        int64_t k0;
        int pm = (int)r.range(0, 2);
        if (pm == 0) {k0 = r.range(kmin, kmax - span);} else if (pm == 1) {
          k0 = std::max(kmin, std::min(kmax - span, r.range(-span, 0)));
        } else {k0 = r.coin() ? kmin : kmax - span;}
        int64_t k1 = k0 + span;
        if (r.coin()) {      // as a user would compute it in the grid's own scalar type
          lo = (S)((S)((LD)k0 + h) * res); hi = (S)((S)((LD)k1 + h) * res);
        } else {             // nearest representable value to the real multiple
          lo = (S)(((LD)k0 + h) * R); hi = (S)(((LD)k1 + h) * R);
        }
      } break;
    case TINY: {
        LD wt = r.coin(0.15) ? 0.0L : R * r.logu(1e-6, 1.0);
        wt = std::min(wt, mcap * R);
        int pm = (int)r.range(0, 3);
        LD l;
        if (pm == 0) {l = -1000 + (2000 - wt) * r.uni();} else {
          LD kk = (LD)r.range((int64_t)ceill(-999 / R), (int64_t)floorl(999 / R));
          if (r.coin(0.3)) {kk = (LD)r.range(-2, 2);}
          LD a = (kk + (pm == 2 ? 0.5L : 0.0L)) * R;       // straddle a centre (pm 1/3) or a border (pm 2)
          l = (pm == 3) ? a : a - wt * r.uni();
        }
        lo = (S)l; hi = (S)(l + wt);
      } break;
    case INSIDE_ONE_CELL: {   // strictly between a centre and the next border: exactly two cells
        LD kk = (LD)r.range((int64_t)ceill(-990 / R), (int64_t)floorl(990 / R));
        lo = (S)((kk + 0.30L) * R); hi = (S)((kk + 0.45L) * R);
      } break;
    case ZERO_SPECIAL: {      // a bound that is +0, -0, a denormal or the smallest normal
        S a = tiny_special<S>(r), b = tiny_special<S>(r);
        int pm = (int)r.range(0, 3);
        if (pm == 0) {lo = a; hi = b;} else if (pm == 1) {lo = a; hi = (S)w;} else if (pm == 2) {
          lo = (S)-w; hi = a;
        } else {lo = (S)(-w * r.uni()); hi = (S)((LD)lo + w); if (!(lo <= 0 && hi >= 0)) {hi = (S)0.0;}}
      } break;
    case INTEGER: {           // integer bounds whatever the resolution
        int64_t wmax = (int64_t)floorl(std::min<LD>(mcap * R, 2000));
        int64_t wi = wmax <= 0 ? 0 : std::min<int64_t>(wmax, (int64_t)llroundl(w));
        if (wmax >= 1 && wi == 0 && r.coin(0.8)) {wi = 1;}
        int64_t l = r.coin(0.4) ? r.range(-1000, 1000 - wi) : std::max<int64_t>(-1000, std::min<int64_t>(1000 - wi, r.range(-wi - 3, 3)));
        lo = (S)l; hi = (S)(l + wi);
      } break;
    case LIMITS: {
        int which = (int)r.range(0, 2);
        if (which == 2 && 2000 / R > mcap) {which = (int)r.range(0, 1);}
        if (which == 0) {lo = L; hi = (S)(-1000 + w);} else if (which == 1) {
          hi = H; lo = (S)(1000 - w);
        } else {lo = L; hi = H;}
      } break;
    default: {
        int pm = (int)r.range(0, 3);
        LD l;
        if (pm == 0) {l = -1000 + (2000 - w) * r.uni();} else if (pm == 1) {l = -w * r.uni();} else {
          LD room = 1000 - w;
          LD off = room > 1e-3L ? std::min<LD>(room, r.logu(1e-3, 1e3)) : 0.0L;
          l = r.coin() ? off : -off - w;
        }
        lo = (S)l; hi = (S)(l + w);
      }
  }
  lo = clampS(lo, L, H); hi = clampS(hi, L, H);
  if (hi < lo) {std::swap(lo, hi);}
}

// one coordinate of a test point inside [lo,hi]
template<class S>
S gen_coord(vh::Rng & r, S lo, S hi, S res, const std::vector<S> & tab, size_t ncell)
{
  const LD R = res;
  size_t n = std::min(tab.size(), ncell);
  auto cell = [&]() -> size_t {
      if (n <= 4 || r.coin(0.3)) {
        size_t e = (size_t)r.range(0, 3);
        size_t i = e < 2 ? e : n - 1 - (e - 2);
        return n ? std::min(i, n - 1) : 0;
      }
      return (size_t)r.range(0, (int64_t)n - 1);
    };
  int64_t klo = (int64_t)floorl((LD)lo / R), khi = (int64_t)ceill((LD)hi / R);
  int mode = (int)r.range(0, 13);
  if (n == 0 && (mode >= 4 && mode <= 6)) {mode = 2;}
  S v;
  switch (mode) {
    case 0: v = lo; break;
    case 1: v = hi; break;
    case 2: case 3: v = (S)((LD)lo + ((LD)hi - (LD)lo) * r.uni()); break;
    case 4: v = tab[cell()] + res / 2; break;                 // upper border of a cell
    case 5: v = tab[cell()] - res / 2; break;                 // lower border of a cell
    case 6: v = tab[cell()]; break;                           // a centre
    case 7: v = (S)r.range(klo, khi) * res; break;            // multiple of res, scalar arithmetic
    case 8: v = ((S)r.range(klo, khi) + (S)0.5) * res; break; // half multiple, scalar arithmetic
    case 9: {
        LD o = R * r.logu(1e-8, 2.0);
        v = r.coin() ? (S)((LD)lo + o) : (S)((LD)hi - o);
      } break;
    case 10: {                                                // lattice (res/4) Z
        LD g = R / 4;
        int64_t jlo = (int64_t)ceill((LD)lo / g), jhi = (int64_t)floorl((LD)hi / g);
        v = jlo <= jhi ? (S)((LD)r.range(jlo, jhi) * g) : lo;
      } break;
    case 12: v = (S)llroundl((LD)lo + ((LD)hi - (LD)lo) * r.uni()); break;   // an integer
    case 13: v = tiny_special<S>(r); break;                   // +-0, denormals (kept when the extent holds 0)
    default: v = (S)(((LD)r.range(klo, khi) + 0.5L) * R);     // nearest value to a real border
  }
  if (r.coin(0.3)) {
    int steps = (int)r.range(1, 3);
    S dir = r.coin() ? (S)4000 : (S)-4000;
    for (int i = 0; i < steps; ++i) {v = std::nextafter(v, dir);}
  }
  return clampS(v, lo, hi);
}

struct Rec
{
  LD obs = 0, tol = 0, ratio = -1;
  int axis = -1;
  LD p = 0, centre = 0;
  uint64_t idx = 0, cnt = 0;
  void upd(LD o, LD t, int ax, LD pp, LD cc, uint64_t ii)
  {
    ++cnt;
    if (o < 0) {o = 0;}
    LD q = t > 0 ? o / t : (o > 0 ? (LD)INFINITY : 0.0L);
    if (!(o == o)) {q = INFINITY;}
    if (q > ratio) {ratio = q; obs = o; tol = t; axis = ax; p = pp; centre = cc; idx = ii;}
  }
};

struct Flag
{
  uint64_t cnt = 0;
  bool bad = false;
  int axis = -1;
  std::string detail;
};

template<class S, size_t D>
struct Cfg
{
  S res = 0;
  int rkind = 0;
  S lo[D], hi[D];
  int kinds[D];
  const char * gcat = "";
  bool symmetric = false;
  S range = 0;
  bool trivial = false;
  uint64_t hash = 0;
  int alias = 0;        // 1: G(x, x)  2: G(ext, ext.lower()[k])  3: G(ext, ext.upper()[k])
  int alias_axis = 0;
  int form = 0;         // constructor arguments: 0 named lvalues, 1 temporaries, 2 std::move of named objects
};

// draws resolution + extent + constructor form; false when the draw falls outside the quantifier
template<class S, size_t D>
bool gen_cfg(vh::Ctx & c, vh::Rng & r, const char * tname, Cfg<S, D> & out, const S * forced_res = nullptr)
{
  c.cat(tname);
  int rkind;
  S res_drawn = pick_res<S>(r, rkind);
  if (forced_res) {
    res_drawn = *forced_res;
    int e; LD mnt = frexpl((LD)res_drawn, &e);
    rkind = (mnt == 0.5L) ? 0 : 2;
  }
  const S res = res_drawn;
  const LD R = res;
  static const char * const RK[] = {"res_dyadic", "res_decimal", "res_generic"};
  c.cat(RK[rkind]);

  // ---------------------------------------------------------------- extent
  S lo[D], hi[D];
  int kinds[D];
  const char * gcat;
  bool symmetric = false;
  S range = 0;
  const LD axis_cap = std::min<LD>(2000 / R, 2.0e6L);
  int alias = 0, alias_axis = 0;
  int gk = (int)r.range(0, 16);
  if (gk == 16 && r.coin(0.6)) {
    // argument aliasing: the constructor's reference parameters refer to the same object
    alias = (int)r.range(1, 3);
    alias_axis = (int)r.range(0, (int)D - 1);
    if (alias == 1) {
      symmetric = true; gcat = "alias_range_is_resolution"; range = res;
      for (size_t d = 0; d < D; ++d) {lo[d] = -range; hi[d] = range; kinds[d] = GENERIC;}
    } else {
      gcat = "alias_resolution_is_bound";
      for (size_t d = 0; d < D; ++d) {
        kinds[d] = GENERIC;
        gen_axis<S>(r, GENERIC, 40, res, lo[d], hi[d]);
      }
      size_t k = (size_t)alias_axis;
      LD w = R * r.uni(0.0, 30.0);
      if (alias == 2) {lo[k] = res; hi[k] = (S)(R + w);} else {hi[k] = res; lo[k] = (S)(R - w);}
    }
  } else if (gk <= 2) {
    // symmetric maximal-range constructor: the same count on every axis
    symmetric = true; gcat = "symmetric";
    LD mcap = std::min<LD>(axis_cap, floorl(powl(1e7L, 1.0L / D)) - 4);
    int sk = (int)r.range(0, 4);
    LD m = draw_span(r, mcap);
    if (sk == 0 || sk == 4) {range = (S)(m * R / 2);} else if (sk == 1 || sk == 2) {
      LD h = sk == 2 ? 0.5L : 0.0L;
      int64_t k = std::max<int64_t>(1, llroundl(m / 2));
      if (2 * (k + 1) > (int64_t)mcap) {k = std::max<int64_t>(0, (int64_t)(mcap / 2) - 1);}
      range = r.coin() ? (S)((S)((LD)k + h) * res) : (S)(((LD)k + h) * R);
    } else {
      range = (2000 / R <= mcap) ? (S)1000 : (S)(mcap * R / 2);
    }
    if (!(range > 0)) {range = (S)(R * r.logu(1e-3, 0.4));}
    range = clampS(range, (S)0, (S)1000);
    for (size_t d = 0; d < D; ++d) {lo[d] = -range; hi[d] = range; kinds[d] = GENERIC;}
  } else {
    static const char * const GC[] = {"generic", "multiple", "half_multiple", "tiny", "limits", "mixed",
      "zero_special", "integer_bounds"};
    static const int GK[] = {GENERIC, MULTIPLE, HALF_MULTIPLE, TINY, LIMITS, -1, ZERO_SPECIAL, INTEGER};
    static const int MIX[] = {GENERIC, MULTIPLE, HALF_MULTIPLE, TINY, LIMITS, ZERO_SPECIAL, INTEGER};
    int g = gk <= 5 ? 0 : gk <= 7 ? 1 : gk <= 9 ? 2 : gk == 10 ? 3 : gk == 11 ? 4 : gk <= 13 ? 5 : gk == 14 ? 6 : 7;
    gcat = GC[g];
    // axes handled in random order; the first gets the large budget
    size_t order[D];
    for (size_t d = 0; d < D; ++d) {order[d] = d;}
    for (size_t d = D - 1; d > 0; --d) {std::swap(order[d], order[(size_t)r.range(0, d)]);}
    LD remaining = 1e7L;
    for (size_t j = 0; j < D; ++j) {
      size_t d = order[j];
      size_t left = D - 1 - j;                       // axes still to come, at least 2 cells each
      LD mcap = std::min<LD>(axis_cap, floorl(remaining / powl(2.0L, (LD)left)) - 3);
      int k = GK[g] >= 0 ? GK[g] : MIX[r.range(0, 6)];
      if (mcap < 3) {k = INSIDE_ONE_CELL;}
      kinds[d] = k;
      gen_axis<S>(r, k, std::max<LD>(mcap, 0), res, lo[d], hi[d]);
      LD n = ceill((LD)hi[d] / R) - floorl((LD)lo[d] / R) + 1;
      remaining = floorl(remaining / n);
    }
  }
  c.cat(gcat);

  // reference cell count in exact arithmetic, only to honour the quantifier's "at most 1e7 cells"
  LD prod = 1;
  for (size_t d = 0; d < D; ++d) {prod *= ceill((LD)hi[d] / R) - floorl((LD)lo[d] / R) + 1;}
  if (prod > 1e7L || !(prod >= 1)) {c.skip("grid:more_than_1e7_cells"); return false;}

  // trivial = what the unit tests sample: unit resolution, small integer bounds
  uint64_t h = vh::hash_doubles({(double)Tr<S>::bits, (double)D, symmetric ? 1.0 : 0.0, (double)res});
  for (size_t d = 0; d < D; ++d) {h = vh::hash_add(vh::hash_add(h, lo[d]), hi[d]);}
  bool all_small_int = true;
  for (size_t d = 0; d < D; ++d) {
    all_small_int = all_small_int && lo[d] == std::floor(lo[d]) && hi[d] == std::floor(hi[d]) &&
      std::fabs(lo[d]) <= 3 && std::fabs(hi[d]) <= 3;
  }
  const bool trivial = (res == (S)1) && all_small_int;

  out.res = res; out.rkind = rkind; out.gcat = gcat; out.symmetric = symmetric; out.range = range;
  out.trivial = trivial; out.hash = vh::hash_addi(h, (uint64_t)alias);
  out.alias = alias; out.alias_axis = alias_axis;
  out.form = alias ? 0 : (r.coin(0.7) ? 0 : (int)r.range(1, 2));
  if (out.form == 1) {c.cat("ctor_args_temporaries");} else if (out.form == 2) {c.cat("ctor_args_moved");}
  for (size_t d = 0; d < D; ++d) {out.lo[d] = lo[d]; out.hi[d] = hi[d]; out.kinds[d] = kinds[d];}
  return true;
}

template<class S, size_t D>
romea::core::GridIndexMapping<S, D> make_grid(const Cfg<S, D> & g, const S * res_ref = nullptr)
{
  using G = romea::core::GridIndexMapping<S, D>;
  using Itv = romea::core::Interval<S, D>;
  if (res_ref) {
    // the resolution (and for alias 1 the range too) is a reference handed out by another
    // mapping's getter, passed straight back in
    if (g.alias == 1) {return G(*res_ref, *res_ref);}
    if (g.symmetric) {return G(g.range, *res_ref);}
    typename G::PointType l, u;
    for (size_t d = 0; d < D; ++d) {l[d] = g.lo[d]; u[d] = g.hi[d];}
    return G(Itv(l, u), *res_ref);
  }
  if (g.alias == 1) {S x = g.res; return G(x, x);}                // one object for both reference parameters
  if (g.symmetric) {
    if (g.form == 1) {return G(S(g.range), S(g.res));}
    if (g.form == 2) {S a = g.range, b = g.res; return G(std::move(a), std::move(b));}
    return G(g.range, g.res);
  }
  typename G::PointType l, u;
  for (size_t d = 0; d < D; ++d) {l[d] = g.lo[d]; u[d] = g.hi[d];}
  if (g.alias == 2) {Itv ext(l, u); return G(ext, ext.lower()[g.alias_axis]);}   // resolution refers into the interval
  if (g.alias == 3) {Itv ext(l, u); return G(ext, ext.upper()[g.alias_axis]);}
  if (g.form == 1) {return G(Itv(l, u), S(g.res));}
  if (g.form == 2) {Itv ext(l, u); S b = g.res; return G(std::move(ext), std::move(b));}
  Itv ext(l, u);
  return G(ext, g.res);
}


// ------------------------------------------------------------------------------------------
// A probe = everything a few fixed queries return.  Used for: result stability (same object,
// later), value semantics (copy vs source vs fresh object), call-form independence.
// ------------------------------------------------------------------------------------------
template<class S, size_t D>
struct Bound          // results bound by reference exactly as the signatures return them
{
  const typename romea::core::GridIndexMapping<S, D>::CellIndexes * nc;
  const S * res;
  const std::vector<S> * tab[D];
};

template<class S, size_t D>
Bound<S, D> bind_refs(const romea::core::GridIndexMapping<S, D> & m)
{
  Bound<S, D> b;
  const auto & nc = m.getNumberOfCellsAlongAxes();
  const auto & rs = m.getCellResolution();
  b.nc = &nc; b.res = &rs;
  for (size_t d = 0; d < D; ++d) {const auto & t = m.getCellCentersPositionAlong(d); b.tab[d] = &t;}
  return b;
}

template<class S> uint64_t table_fingerprint(const std::vector<S> & t)
{
  uint64_t h = vh::hash_addi(0x51ab, (uint64_t)t.size());
  size_t n = t.size();
  if (n <= 256) {for (size_t i = 0; i < n; ++i) {h = vh::hash_add(h, (double)t[i]);}} else {
    h = vh::hash_add(vh::hash_add(h, (double)t[0]), (double)t[n - 1]);
    for (uint64_t j = 1; j <= 64; ++j) {h = vh::hash_add(h, (double)t[(size_t)((j * 0x9e3779b97f4a7c15ULL) % n)]);}
  }
  return h;
}

template<class S, size_t D>
struct Probe
{
  uint64_t nc[D];
  S res;
  uint64_t fp[D];
  uint64_t ix[3][D];
  S cc[3][D];
  bool in[3];
  bool operator==(const Probe & o) const
  {
    bool e = std::memcmp(&res, &o.res, sizeof(S)) == 0;
    for (size_t d = 0; d < D; ++d) {e = e && nc[d] == o.nc[d] && fp[d] == o.fp[d];}
    for (int k = 0; k < 3; ++k) {
      e = e && in[k] == o.in[k];
      for (size_t d = 0; d < D; ++d) {
        e = e && ix[k][d] == o.ix[k][d] && (!in[k] || std::memcmp(&cc[k][d], &o.cc[k][d], sizeof(S)) == 0);
      }
    }
    return e;
  }
  std::string json() const
  {
    vh::J j;
    j.f("res", res).arr("ncells", nc, nc + D).arr("table_fingerprints", fp, fp + D);
    for (int k = 0; k < 3; ++k) {
      std::string key = std::string("point") + char('0' + k);
      vh::J q; q.arr("index", ix[k], ix[k] + D);
      if (in[k]) {q.arr("centre", cc[k], cc[k] + D);}
      j.raw(key.c_str(), q.str());
    }
    return j.str();
  }
};

// the three probe points: lower corner, upper corner, middle of the extent
template<class S, size_t D>
typename romea::core::GridIndexMapping<S, D>::PointType probe_point(const Cfg<S, D> & g, int k)
{
  typename romea::core::GridIndexMapping<S, D>::PointType p;
  for (size_t d = 0; d < D; ++d) {
    p[d] = k == 0 ? g.lo[d] : k == 1 ? g.hi[d] : clampS((S)(((LD)g.lo[d] + (LD)g.hi[d]) / 2), g.lo[d], g.hi[d]);
  }
  return p;
}

template<class S, size_t D>
Probe<S, D> take_probe(const romea::core::GridIndexMapping<S, D> & m, const Bound<S, D> & b, const Cfg<S, D> & g)
{
  Probe<S, D> pr;
  pr.res = *b.res;
  bool tables = true;
  for (size_t d = 0; d < D; ++d) {
    pr.nc[d] = (*b.nc)[d];
    pr.fp[d] = table_fingerprint(*b.tab[d]);
    tables = tables && b.tab[d]->size() >= (*b.nc)[d];
  }
  for (int k = 0; k < 3; ++k) {
    auto ix = m.computeCellIndexes(probe_point(g, k));
    pr.in[k] = tables;
    for (size_t d = 0; d < D; ++d) {pr.ix[k][d] = ix[d]; pr.in[k] = pr.in[k] && ix[d] < (*b.nc)[d]; pr.cc[k][d] = 0;}
    if (pr.in[k]) {
      auto cc = m.computeCellCenterPosition(ix);
      for (size_t d = 0; d < D; ++d) {pr.cc[k][d] = cc[d];}
    }
  }
  return pr;
}
template<class S, size_t D>
Probe<S, D> take_probe(const romea::core::GridIndexMapping<S, D> & m, const Cfg<S, D> & g)
{
  return take_probe(m, bind_refs(m), g);
}

template<class S, size_t D>
vh::Params light_params(const Cfg<S, D> & g, int assign_mode)
{
  return vh::Params{{"scalar_bits", (double)Tr<S>::bits}, {"dim", (double)D}, {"symmetric_ctor", g.symmetric ? 1.0 : 0.0},
    {"reassigned", (double)assign_mode}, {"res", (double)g.res}, {"alias", (double)g.alias}, {"ctor_form", (double)g.form}};
}
template<class S, size_t D>
std::string cfg_json(const Cfg<S, D> & g, const char * phase)
{
  return vh::J().s("scalar", Tr<S>::bits == 32 ? "float" : "double").f("dim", (int)D).s("category", g.gcat)
         .s("object_history", phase).s("ctor", g.symmetric ? "maximalRange" : "interval").f("res", g.res)
         .f("range", g.range).arr("lo", g.lo, g.lo + D).arr("hi", g.hi, g.hi + D).f("alias", g.alias)
         .f("ctor_form", g.form).str();
}

// neighbouring facilities between two observations: sibling mappings of the same and of the other
// instantiations (built, queried, assigned, destroyed) and stream formatting with changed flags
template<class S, size_t D>
void disturb(vh::Rng & r)
{
  using G = romea::core::GridIndexMapping<S, D>;
  typedef typename std::conditional<std::is_same<S, float>::value, double, float>::type S2;
  constexpr size_t D2 = D == 2 ? 3 : 2;
  {
    G sib(S(3.5), S(0.5));
    volatile S v = sib.getCellCentersPositionAlong(0)[1]; (void)v;
    G other;
    other = sib;
    typename G::PointType p = G::PointType::Constant(S(1.25));
    volatile size_t i = other.computeCellIndexes(p)[D - 1]; (void)i;
    sib = G(S(1), S(r.coin() ? 0.25 : 2.0));
    volatile S w = sib.computeCellCenterPosition(G::CellIndexes::Zero())[0]; (void)w;
    // every getter of the sibling too (a getter answering through shared storage would show here)
    volatile S rs = other.getCellResolution() + sib.getCellResolution(); (void)rs;
    volatile size_t ns = other.getNumberOfCellsAlongAxes()[0] + sib.getNumberOfCellsAlongAxes()[D - 1]; (void)ns;
    volatile size_t ts = sib.getCellCentersPositionAlong(D - 1).size(); (void)ts;
  }
  {
    romea::core::GridIndexMapping<S2, D> a(S2(7), S2(1));
    romea::core::GridIndexMapping<S, D2> b(S(2), S(0.125));
    romea::core::GridIndexMapping<S2, D2> e(S2(0.5), S2(0.01));
    volatile S2 v = a.getCellCentersPositionAlong(D - 1)[2]; (void)v;
    volatile S w = b.getCellCentersPositionAlong(D2 - 1)[3]; (void)w;
    volatile size_t n = e.getNumberOfCellsAlongAxes()[0]; (void)n;
    volatile double rs = (double)a.getCellResolution() + (double)b.getCellResolution() + (double)e.getCellResolution(); (void)rs;
  }
  {
    std::ostringstream os;
    os << std::setprecision(3) << std::scientific << 1234.5678 << std::hexfloat << 0.1f << std::fixed
       << std::setw(12) << std::setfill('*') << -2.5L << std::boolalpha << true << std::hex << 255;
    volatile size_t n = os.str().size(); (void)n;
  }
}

// all oracles of the statement, on mapping object m which is claimed to represent configuration g.
// phase / assign_mode describe the history of the object (0 = never held another configuration).
template<class S, size_t D>
void check_grid(
  vh::Ctx & c, vh::Rng & r, const char * tname, const Cfg<S, D> & g,
  const romea::core::GridIndexMapping<S, D> & m, const char * phase, int assign_mode)
{
  using G = romea::core::GridIndexMapping<S, D>;
  using Pt = typename G::PointType;
  using Ix = typename G::CellIndexes;
  const LD eps = std::numeric_limits<S>::epsilon();
  const int NP = c.tier == "thorough" ? 100 : 60;
  const S res = g.res;
  const LD R = res;
  const int rkind = g.rkind;
  const S * lo = g.lo;
  const S * hi = g.hi;
  const int * kinds = g.kinds;
  const char * gcat = g.gcat;
  const bool symmetric = g.symmetric;
  const S range = g.range;

  // results bound as the signatures return them (const references), kept to the end of this check
  const auto & nc_ref = m.getNumberOfCellsAlongAxes();
  const auto & res_ref = m.getCellResolution();
  const Ix nc = nc_ref;
  {
    LD built = 1;
    for (size_t d = 0; d < D; ++d) {built *= (LD)nc[d];}
    if (built > 1e7L) {c.skip("grid:built_with_more_than_1e7_cells"); return;}
  }

  auto grid_json = [&]() {
      vh::J j;
      j.s("scalar", Tr<S>::bits == 32 ? "float" : "double").f("dim", (int)D).s("category", gcat)
      .s("object_history", phase)
      .s("ctor", symmetric ? "maximalRange" : "interval").f("res", res).f("range", range)
      .arr("lo", lo, lo + D).arr("hi", hi, hi + D);
      std::string k = "[";
      for (size_t d = 0; d < D; ++d) {k += (d ? "," : ""); k += vh::jstr(KIND_NAME[kinds[d]]);}
      j.raw("axis_kinds", k + "]");
      std::string s = "[";
      for (size_t d = 0; d < D; ++d) {s += (d ? "," : "") + std::to_string((uint64_t)nc[d]);}
      j.raw("ncells", s + "]");
      return j;
    };
  c.sample(std::string(tname) + "/" + gcat, [&]() {return grid_json().str();});

  // per-axis scale, tolerances, exact-regime flag
  LD Sc[D], tol_half[D], tol_sp[D];
  bool exact[D];
  bool any_exact = false;
  const LD g4 = R / 4;
  for (size_t d = 0; d < D; ++d) {
    Sc[d] = std::max(fabsl((LD)lo[d]), fabsl((LD)hi[d])) + 2 * R;
    exact[d] = rkind == 0 && on_lattice(lo[d], g4) && on_lattice(hi[d], g4) &&
      Sc[d] / g4 <= ldexpl(1.0L, Tr<S>::mant - 3);
    any_exact = any_exact || exact[d];
    tol_half[d] = 16 * eps * Sc[d];
    tol_sp[d] = 16 * eps * Sc[d];
    bool decisive = tol_half[d] < R / 4;
    c.count("axes_total");
    if (decisive) {c.count("axes_decisive");}
    if (Tr<S>::bits == 32) {c.count("float_axes_total"); if (decisive) {c.count("float_axes_decisive");}}
    c.maxi("max_cells_along_axis", (double)nc[d]);
    c.maxi(Tr<S>::bits == 32 ? "float_max_bound_over_res" : "double_max_bound_over_res", (double)(Sc[d] / R));
    if (nc[d] >= 100000) {c.cat("axis_ge_1e5_cells");}
    if (Tr<S>::bits == 32 && nc[d] >= 500000) {c.cat("float_axis_ge_5e5_cells");}
    if (lo[d] < 0 && hi[d] > 0) {c.cat("axis_straddles_zero");}
    if (hi[d] <= 0) {c.cat("axis_negative_only");}
    if (lo[d] == hi[d]) {c.cat("axis_zero_width");}
  }
  if (any_exact) {c.count("exact_regime_grids");}

  auto base_params = [&](int ax) {
      size_t d = ax >= 0 ? (size_t)ax : 0;
      return vh::Params{{"scalar_bits", (double)Tr<S>::bits}, {"dim", (double)D}, {"axis", (double)ax},
        {"symmetric_ctor", symmetric ? 1.0 : 0.0}, {"reassigned", (double)assign_mode}, {"res", (double)res}, {"lo", (double)lo[d]}, {"hi", (double)hi[d]},
        {"ncells", (double)nc[d]}, {"bound_over_res", (double)(Sc[d] / R)}, {"exact_regime", exact[d] ? 1.0 : 0.0}};
    };

  // ---------------------------------------------------------------- every cell has a centre
  const std::vector<S> * tab[D];
  bool tables_ok = true;
  for (size_t d = 0; d < D; ++d) {
    tab[d] = &m.getCellCentersPositionAlong(d);
    bool ok = nc[d] >= 1 && tab[d]->size() >= nc[d];
    tables_ok = tables_ok && ok;
    c.expect("cells_have_centres", ok, "missing_cell_centre", [&]() {return base_params((int)d);}, [&]() {
        return grid_json().f("axis", (int)d).f("table_size", (uint64_t)tab[d]->size()).str();
      });
  }
  if (!tables_ok) {return;}

  c.expect("resolution_getter", res_ref == g.res, "resolution_mismatch", [&]() {return base_params(0);}, [&]() {
      return grid_json().f("getCellResolution", res_ref).str();
    });
  Bound<S, D> b0;
  b0.nc = &nc_ref; b0.res = &res_ref;
  for (size_t d = 0; d < D; ++d) {b0.tab[d] = tab[d];}
  const Probe<S, D> pr0 = take_probe(m, b0, g);

  // ---------------------------------------------------------------- call forms: temporaries, std::move, Eigen
  // expressions, arguments that are references to the object's own state
  {
    Flag cf;
    for (int k = 0; k < 3; ++k) {
      ++cf.cnt;
      Pt p = probe_point(g, k);
      Ix a = m.computeCellIndexes(p);
      Pt q = p, q2 = p;
      Ix b1 = m.computeCellIndexes(Pt(p));
      Ix b2 = m.computeCellIndexes(std::move(q));
      Ix b3 = m.computeCellIndexes(p + Pt::Zero());
      Ix b4 = m.computeCellIndexes(q2.template head<D>());
      bool same = a == b1 && a == b2 && a == b3 && a == b4;
      if (pr0.in[k]) {
        Pt c0 = m.computeCellCenterPosition(a);
        Ix a2 = a;
        Pt c1 = m.computeCellCenterPosition(Ix(a));
        Pt c2 = m.computeCellCenterPosition(std::move(a2));
        Pt c3 = m.computeCellCenterPosition(a + Ix::Zero());
        same = same && std::memcmp(c0.data(), c1.data(), sizeof(S) * D) == 0 &&
          std::memcmp(c0.data(), c2.data(), sizeof(S) * D) == 0 && std::memcmp(c0.data(), c3.data(), sizeof(S) * D) == 0;
        Ix back1 = m.computeCellIndexes(m.computeCellCenterPosition(a));
        Ix back2 = m.computeCellIndexes(c0);
        same = same && back1 == back2;
      }
      if (!same && !cf.bad) {cf.bad = true; cf.detail = vh::J().raw("point", vh::jvec(p)).str();}
    }
    for (size_t d = 0; d < D; ++d) {
      size_t dl = d;
      const std::vector<S> & t1 = m.getCellCentersPositionAlong(dl);
      const std::vector<S> & t2 = m.getCellCentersPositionAlong(size_t(d));
      const std::vector<S> & t3 = m.getCellCentersPositionAlong(std::move(dl));
      auto same_table = [&](const std::vector<S> & t, size_t ax) {
          return &t == tab[ax] || table_fingerprint(t) == pr0.fp[ax];     // same object, or at least same content
        };
      bool same = same_table(t1, d) && same_table(t2, d) && same_table(t3, d);
      // the axis number given as a reference to the object's own cell count (when that count is a valid axis)
      if (nc_ref[d] < D) {
        const std::vector<S> & t4 = m.getCellCentersPositionAlong(nc_ref[d]);
        same = same && same_table(t4, nc_ref[d]);
        c.cat("own_count_passed_as_axis");
      }
      if (!same && !cf.bad) {cf.bad = true; cf.axis = (int)d; cf.detail = vh::J().f("table_axis", (int)d).str();}
    }
    c.expect("call_form_independent", !cf.bad, "result_depends_on_call_form", [&]() {return base_params(cf.axis);}, [&]() {
        return grid_json().raw("fail", cf.detail).str();
      });
  }

  // ---------------------------------------------------------------- points of the closed extent
  Rec half_g, half_e;
  Flag inb;
  uint64_t npts = 0, npts_exact = 0;
  for (int k = 0; k < NP; ++k) {
    Pt p;
    if (k < (1 << D)) {
      for (size_t d = 0; d < D; ++d) {p[d] = ((k >> d) & 1) ? hi[d] : lo[d];}
    } else {
      for (size_t d = 0; d < D; ++d) {p[d] = gen_coord<S>(r, lo[d], hi[d], res, *tab[d], nc[d]);}
      if (k % 8 == 7) {
        // equal components (incl. the origin) when the common value lies in every axis's interval
        S v = (k % 16 == 7) ? (r.coin() ? (S)0.0 : -(S)0.0) : p[0];
        bool fits = true;
        for (size_t d = 0; d < D; ++d) {fits = fits && v >= lo[d] && v <= hi[d];}
        if (fits) {p = Pt::Constant(v); c.cat(v == 0 ? "point_origin" : "point_equal_components");}
      }
    }
    Ix ix = m.computeCellIndexes(p);
    ++npts; ++inb.cnt;
    bool in = true;
    for (size_t d = 0; d < D; ++d) {
      if (!(ix[d] < nc[d])) {
        in = false;
        if (!inb.bad) {
          inb.bad = true; inb.axis = (int)d;
          inb.detail = vh::J().raw("point", vh::jvec(p)).f("axis", (int)d).f("index", (uint64_t)ix[d])
            .f("ncells", (uint64_t)nc[d]).str();
        }
      }
    }
    if (!in) {continue;}
    Pt cc = m.computeCellCenterPosition(ix);
    for (size_t d = 0; d < D; ++d) {
      LD d1 = fabsl((LD)p[d] - (LD)cc[d]);
      LD d2 = fabsl((LD)p[d] - (LD)(*tab[d])[ix[d]]);
      LD ex = std::max(d1, d2) - R / 2;
      LD far = d1 >= d2 ? (LD)cc[d] : (LD)(*tab[d])[ix[d]];
      if (exact[d] && on_lattice(p[d], g4)) {
        half_e.upd(ex, 0.0L, (int)d, p[d], far, ix[d]); ++npts_exact;
      } else {
        half_g.upd(ex, tol_half[d], (int)d, p[d], far, ix[d]);
      }
    }
  }
  c.count("points_checked", npts);
  c.count("exact_regime_coordinates", npts_exact);
  c.expect("in_bounds", !inb.bad, "index_out_of_range", [&]() {return base_params(inb.axis);}, [&]() {
      return grid_json().raw("fail", inb.detail).str();
    });
  auto report = [&](const char * oracle, const char * kind, const Rec & w) {
      if (!w.cnt) {return;}
      c.expect_le(oracle, w.obs, w.tol, kind, [&]() {
          vh::Params p = base_params(w.axis);
          p.push_back({"p", (double)w.p});
          p.push_back({"excess_over_res", (double)(w.obs / R)});
          return p;
        }, [&]() {
          return grid_json().f("axis", w.axis).f("p", w.p).f("index", w.idx).f("centre", w.centre)
                 .f("excess", w.obs).str();
        });
    };
  report("half_cell", "point_far_from_cell_centre", half_g);
  report("exact.half_cell", "point_far_from_cell_centre", half_e);

  disturb<S, D>(r);       // sibling objects and stream formatting between the observations

  // ---------------------------------------------------------------- centres map back to their own indexes
  {
    Flag mb;
    int NT = 12;
    for (int k = 0; k < NT; ++k) {
      Ix I;
      for (size_t d = 0; d < D; ++d) {
        size_t n = nc[d];
        if (k == 0) {I[d] = 0;} else if (k == 1) {I[d] = n - 1;} else if (k == 2) {I[d] = (d % 2) ? n - 1 : 0;} else {
          size_t e = (size_t)r.range(0, 9);
          I[d] = e == 0 ? 0 : e == 1 ? n - 1 : e == 2 ? std::min<size_t>(1, n - 1) : e == 3 ? (n >= 2 ? n - 2 : 0) :
            (size_t)r.range(0, (int64_t)n - 1);
        }
      }
      Pt cc = m.computeCellCenterPosition(I);
      Ix back = m.computeCellIndexes(cc);
      ++mb.cnt;
      for (size_t d = 0; d < D; ++d) {
        if (back[d] != I[d] && !mb.bad) {
          mb.bad = true; mb.axis = (int)d;
          mb.detail = vh::J().raw("centre", vh::jvec(cc)).f("axis", (int)d).f("index", (uint64_t)I[d])
            .f("mapped_to", (uint64_t)back[d]).str();
        }
      }
    }
    c.count("centres_mapped_back", mb.cnt);
    c.expect("centre_maps_to_own_index", !mb.bad, "centre_not_mapped_to_own_index",
      [&]() {return base_params(mb.axis);}, [&]() {return grid_json().raw("fail", mb.detail).str();});
  }

  // ---------------------------------------------------------------- spacing and cover, per axis
  Rec sp_g, sp_e, cv_g, cv_e;
  Ix first = Ix::Zero(), last;
  for (size_t d = 0; d < D; ++d) {last[d] = nc[d] - 1;}
  Pt cfirst = m.computeCellCenterPosition(first), clast = m.computeCellCenterPosition(last);
  for (size_t d = 0; d < D; ++d) {
    const std::vector<S> & t = *tab[d];
    size_t n = nc[d];
    auto pair = [&](size_t i) {
        LD dev = fabsl(((LD)t[i + 1] - (LD)t[i]) - R);
        if (exact[d]) {sp_e.upd(dev, 0.0L, (int)d, t[i], t[i + 1], i);} else {
          sp_g.upd(dev, tol_sp[d], (int)d, t[i], t[i + 1], i);
        }
      };
    if (n >= 2) {
      if (n <= 200) {for (size_t i = 0; i + 1 < n; ++i) {pair(i);}} else {
        pair(0); pair(1); pair(n - 2); pair(n - 3);
        for (int k = 0; k < 96; ++k) {pair((size_t)r.range(0, (int64_t)n - 2));}
      }
    }
    // the union of the cells reaches both bounds (first cell's lower edge, last cell's upper edge)
    LD c0 = std::max((LD)cfirst[d], (LD)t[0]), c1 = std::min((LD)clast[d], (LD)t[n - 1]);
    LD miss_lo = (c0 - R / 2) - (LD)lo[d], miss_hi = (LD)hi[d] - (c1 + R / 2);
    if (exact[d]) {
      cv_e.upd(miss_lo, 0.0L, (int)d, lo[d], c0, 0); cv_e.upd(miss_hi, 0.0L, (int)d, hi[d], c1, n - 1);
    } else {
      cv_g.upd(miss_lo, tol_sp[d], (int)d, lo[d], c0, 0); cv_g.upd(miss_hi, tol_sp[d], (int)d, hi[d], c1, n - 1);
    }
  }
  c.count("centre_pairs_checked", sp_g.cnt + sp_e.cnt);
  report("spacing", "centre_spacing", sp_g);
  report("exact.spacing", "centre_spacing", sp_e);
  report("cover", "bounds_not_covered", cv_g);
  report("exact.cover", "bounds_not_covered", cv_e);

  // ---------------------------------------------------------------- result stability: the references bound at the
  // start still show the same values, and the same queries return the same results, after everything above
  {
    const Probe<S, D> pr1 = take_probe(m, b0, g), pr2 = take_probe(m, g);
    c.expect("result_stable", pr0 == pr1 && pr0 == pr2, "result_changed", [&]() {return base_params(0);}, [&]() {
        return grid_json().raw("first", pr0.json()).raw("later_via_kept_references", pr1.json())
               .raw("later_via_new_references", pr2.json()).str();
      });
  }
}

// an object holding configuration g answers the probe exactly as a freshly constructed one
template<class S, size_t D>
void expect_same_as_fresh(
  vh::Ctx & c, const Cfg<S, D> & g, const romea::core::GridIndexMapping<S, D> & m, const char * phase, int mode)
{
  Cfg<S, D> plain = g;
  plain.form = 0;
  if (plain.alias > 1) {plain.alias = 0;}
  const romea::core::GridIndexMapping<S, D> fresh = make_grid(plain);
  const Probe<S, D> a = take_probe(m, g), b = take_probe(fresh, g);
  c.expect("same_as_fresh_object", a == b, "differs_from_fresh_object", [&]() {return light_params(g, mode);}, [&]() {
      return vh::J().raw("grid", cfg_json(g, phase)).raw("object", a.json()).raw("fresh", b.json()).str();
    });
}

// light uses of an object that stop short of the full oracles (to vary what the object has
// already served before it is assigned from / assigned to)
template<class S, size_t D>
void touch_indexes(const romea::core::GridIndexMapping<S, D> & m, const Cfg<S, D> & g)
{
  typename romea::core::GridIndexMapping<S, D>::PointType p;
  for (size_t d = 0; d < D; ++d) {p[d] = g.lo[d];}
  volatile size_t sink = m.computeCellIndexes(p)[0];
  (void)sink;
}
template<class S, size_t D>
void touch_centres(const romea::core::GridIndexMapping<S, D> & m)
{
  volatile size_t sink = m.getCellCentersPositionAlong(D - 1).size();
  (void)sink;
  if (m.getNumberOfCellsAlongAxes().minCoeff() >= 1 && m.getCellCentersPositionAlong(0).size() >= 1) {
    typename romea::core::GridIndexMapping<S, D>::CellIndexes z =
      romea::core::GridIndexMapping<S, D>::CellIndexes::Zero();
    bool ok = true;
    for (size_t d = 0; d < D; ++d) {ok = ok && m.getCellCentersPositionAlong(d).size() >= 1;}
    if (ok) {volatile S s2 = m.computeCellCenterPosition(z)[0]; (void)s2;}
  }
}


// ------------------------------------------------------------------------------------------
// RELATED configuration pairs for the re-use operations: the second configuration is derived from
// the first so that some, but not all, derived quantities coincide (an assignment that decides
// what to refresh from a partial key is only wrong on such pairs; independent draws never hit them).
// Everything lives on a dyadic lattice: res1 = a u, res2 = b u (a != b odd, u = 2^e), lower bound
// (k + q/4) res with integer k, so that floor(lo/res) = k, the snapped origin res (k - 1/2) and the
// cell count n are known exactly without any rounding (in float and in double), independently of how
// the library computes them.  Equal origins: a (2 k1 - 1) = b (2 k2 - 1), i.e. k1 = (b t + 1)/2,
// k2 = (a t + 1)/2 for an odd t  (a=1, b=3, t=-1, u=1: [-1,..] at 1 m and [0,..] at 3 m, origin -1.5).
// ------------------------------------------------------------------------------------------
enum Rel {R_SAME_COUNTS = 0, R_SAME_ORIGIN, R_SAME_COUNTS_AND_ORIGIN, R_SHIFTED_ORIGIN, R_SAME_UPPER_BOUND,
  R_IDENTICAL, R_PER_AXIS_MIXTURE, R_SYMMETRIC_SAME_COUNTS, R_COUNT};
static const char * const REL_NAME[] = {"related_same_counts_other_resolution", "related_same_origin_other_resolution",
  "related_same_counts_and_origin_other_resolution", "related_same_resolution_and_counts_shifted_origin",
  "related_same_upper_bound_only", "related_identical", "related_per_axis_mixture",
  "related_symmetric_same_counts_other_resolution"};

template<class S, size_t D>
void finish_lattice_cfg(Cfg<S, D> & g, S res, bool symmetric, S range)
{
  g.res = res;
  int e; LD mnt = frexpl((LD)res, &e);
  g.rkind = (mnt == 0.5L) ? 0 : 2;
  g.gcat = "related_pair";
  g.symmetric = symmetric; g.range = range; g.alias = 0; g.alias_axis = 0; g.form = 0;
  uint64_t h = vh::hash_doubles({(double)Tr<S>::bits, (double)D, symmetric ? 1.0 : 0.0, (double)res});
  bool small_int = true;
  for (size_t d = 0; d < D; ++d) {
    if (symmetric) {g.lo[d] = -range; g.hi[d] = range;}
    g.kinds[d] = LATTICE;
    h = vh::hash_add(vh::hash_add(h, g.lo[d]), g.hi[d]);
    small_int = small_int && g.lo[d] == std::floor(g.lo[d]) && g.hi[d] == std::floor(g.hi[d]) &&
      std::fabs(g.lo[d]) <= 3 && std::fabs(g.hi[d]) <= 3;
  }
  g.trivial = res == (S)1 && small_int;
  g.hash = h;
}

template<class S, size_t D>
bool gen_related_pair(vh::Ctx & c, vh::Rng & r, const char * tname, int rel, Cfg<S, D> & g1, Cfg<S, D> & g2)
{
  static const int ODD[] = {1, 3, 5, 7, 9};
  int a = ODD[r.range(0, 4)], b = ODD[r.range(0, 4)];
  while (b == a) {b = ODD[r.range(0, 4)];}
  if (r.coin(0.15)) {a = 1; b = 3;}
  const int e = r.coin(0.2) ? 0 : (int)r.range(-7, 0);
  const LD u = ldexpl(1.0L, e);
  const LD r1 = a * u, r2 = b * u;
  // axis d of a configuration: lower bound (k + q/4) res, n cells, upper bound (k + n - 2 + p/4) res, p in 1..4
  auto axis = [](LD res, int64_t k, int q, int64_t n, int p, S & lo, S & hi) {
      if (n < 2) {n = 2;}
      if (n == 2 && p < q) {p = q;}
      lo = (S)(((LD)k + q / 4.0L) * res);
      hi = (S)(((LD)k + (LD)(n - 2) + p / 4.0L) * res);
    };
  if (rel == R_SYMMETRIC_SAME_COUNTS) {
    int64_t m = r.range(0, 30);
    S ra = (S)(((LD)m + (int)r.range(1, 4) / 4.0L) * r1), rb = (S)(((LD)m + (int)r.range(1, 4) / 4.0L) * r2);
    finish_lattice_cfg<S, D>(g1, (S)r1, true, ra);
    finish_lattice_cfg<S, D>(g2, (S)r2, true, rb);
  } else {
    const int64_t tmax = std::max<int64_t>(1, (int64_t)floorl(600.0L / (a * b * u / 2)));
    for (size_t d = 0; d < D; ++d) {
      int64_t half = std::min<int64_t>((tmax - 1) / 2, r.coin(0.5) ? 3 : 1000);
      int64_t t = 2 * r.range(-half - 1, half) + 1;                 // odd, |t| <= tmax
      const int64_t k1 = (b * t + 1) / 2, k2 = (a * t + 1) / 2;     // b t + 1 and a t + 1 are even
      const int64_t n = r.range(2, 40);
      const int q1 = (int)r.range(0, 3), p1 = (int)r.range(1, 4), q2 = (int)r.range(0, 3), p2 = (int)r.range(1, 4);
      int64_t s = r.range(1, 5) * (r.coin() ? 1 : -1);
      int64_t dn = r.range(1, 6) * (r.coin() ? 1 : -1);
      if (n + dn < 2) {dn = -dn;}
      axis(r1, k1, q1, n, p1, g1.lo[d], g1.hi[d]);
      switch (rel) {
        case R_SAME_COUNTS: axis(r2, k2 + (d == 0 || r.coin() ? s : 0), q2, n, p2, g2.lo[d], g2.hi[d]); break;
        case R_SAME_ORIGIN: axis(r2, k2, q2, n + (d == 0 || r.coin() ? dn : 0), p2, g2.lo[d], g2.hi[d]); break;
        case R_SAME_COUNTS_AND_ORIGIN: axis(r2, k2, q2, n, p2, g2.lo[d], g2.hi[d]); break;
        case R_SHIFTED_ORIGIN: axis(r1, k1 + (d == 0 || r.coin() ? s : 0), q2, n, p2, g2.lo[d], g2.hi[d]); break;
        case R_SAME_UPPER_BOUND: {
            g2.hi[d] = g1.hi[d];
            g2.lo[d] = (S)((LD)g1.hi[d] - ((LD)r.range(0, 30) + q2 / 4.0L) * r2);
          } break;
        case R_IDENTICAL: g2.lo[d] = g1.lo[d]; g2.hi[d] = g1.hi[d]; break;
        default:      // per-axis mixture: axis 0 shares count and origin, the others differ in count or origin
          if (d == 0) {axis(r2, k2, q2, n, p2, g2.lo[d], g2.hi[d]);} else if (r.coin()) {
            axis(r2, k2, q2, n + dn, p2, g2.lo[d], g2.hi[d]);
          } else {axis(r2, k2 + s, q2, n, p2, g2.lo[d], g2.hi[d]);}
      }
    }
    finish_lattice_cfg<S, D>(g1, (S)r1, false, (S)0);
    finish_lattice_cfg<S, D>(g2, rel == R_SHIFTED_ORIGIN || rel == R_IDENTICAL ? (S)r1 : (S)r2, false, (S)0);
  }
  for (size_t d = 0; d < D; ++d) {
    if (!(g1.lo[d] <= g1.hi[d] && g2.lo[d] <= g2.hi[d] && g1.lo[d] >= (S)-1000 && g2.lo[d] >= (S)-1000 &&
      g1.hi[d] <= (S)1000 && g2.hi[d] <= (S)1000))
    {
      c.skip("related_pair:outside_quantifier"); return false;
    }
  }
  static const char * const RK[] = {"res_dyadic", "res_decimal", "res_generic"};
  c.cat(tname); c.cat(tname);
  c.cat(RK[g1.rkind]); c.cat(RK[g2.rkind]);
  c.cat("related_pair"); c.cat("related_pair");
  c.cat(REL_NAME[rel]);
  if (rel == R_SAME_COUNTS_AND_ORIGIN) {c.cat(std::string(REL_NAME[rel]) + "/" + tname);}
  return true;
}

// One case = one mapping OBJECT and its history: built (directly, by copy, by move, or default-
// constructed then assigned), used (not at all / indexes only / centres only / all oracles), then --
// in about a third of the cases -- assigned a NEW configuration (from a never-queried temporary,
// from a source whose indexes / centres were already used, from a fully checked source, by move,
// twice in a row, from a copy of itself, from a mapping built out of its own getters' references,
// or after a long history of 2^8+k / 2^16+k assignments and queries) and checked again with all
// oracles against the new parameters; finally, in 8 % of the cases, copied / moved and the
// copy, the source and a fresh object compared (value semantics).
template<class S, size_t D>
void grid_case(vh::Ctx & c, vh::Rng & r, const char * tname)
{
  using G = romea::core::GridIndexMapping<S, D>;
  Cfg<S, D> g1, grel;
  // 7 % of the cases: a pair of RELATED configurations (see gen_related_pair) taken through the re-use operations
  const bool related = r.coin(0.07);
  const int rel = (int)r.range(0, R_COUNT - 1);
  const int rop = (int)r.range(0, 4);   // 0 assign temporary, 1 copy-assign, 2 move-assign, 3 after default construction, 4 alternating history
  if (related) {
    if (!gen_related_pair<S, D>(c, r, tname, rel, g1, grel)) {return;}
  } else if (!gen_cfg<S, D>(c, r, tname, g1)) {return;}

  int how = (int)r.range(0, 9);      // 0: default-construct then assign, 1: copy, 2: move, else direct
  if (related && rop == 3) {how = 0;}
  std::unique_ptr<G> grid;
  if (how == 0) {grid.reset(new G()); *grid = make_grid(g1);} else if (how == 1) {
    G tmp = make_grid(g1);
    if (r.coin()) {touch_centres<S, D>(tmp);}
    grid.reset(new G(tmp));
  } else if (how == 2) {
    G tmp = make_grid(g1);
    if (r.coin()) {touch_centres<S, D>(tmp);}
    grid.reset(new G(std::move(tmp)));
    c.cat("move_constructed");
    tmp = G(S(2), S(1));             // the moved-from source is given another job, then dropped
    touch_centres<S, D>(tmp);
  } else {grid.reset(new G(make_grid(g1)));}

  // long histories: always drawn, so that the case stream does not depend on the case count
  const bool lh8 = r.coin(1.0 / 150), lh16draw = r.coin(1.0 / 6000);
  const bool lh16 = lh16draw && c.N > 50000;          // too slow for the reduced (valgrind) workloads
  const int kextra = (int)r.range(0, 3);

  const bool reassign = !related && (lh8 || lh16 || r.coin(0.34));
  // what the object has served before the re-assignment (always everything when there is none)
  const int pre = (reassign || related) ? (int)r.range(0, 5) : 5;    // 0 nothing, 1 indexes, 2 centres, 3..5 all oracles
  if (pre >= 3) {
    check_grid<S, D>(c, r, tname, g1, *grid, how == 0 ? "default_constructed_then_assigned" :
      how == 1 ? "copy_constructed" : how == 2 ? "move_constructed" : "constructed", 0);
  } else if (pre == 1) {touch_indexes<S, D>(*grid, g1);} else if (pre == 2) {touch_centres<S, D>(*grid);}

  uint64_t h = g1.hash;
  bool trivial = g1.trivial;
  Cfg<S, D> gcur = g1;
  int cur_mode = 0;
  if (reassign) {
    Cfg<S, D> g2;
    int mode = (lh8 || lh16) ? 12 : (int)r.range(1, 11);
    bool have = true;
    if (mode == 9) {g2 = g1;} else if (mode == 10) {
      // G(own resolution, own resolution): symmetric, range == resolution
      g2 = g1;
      g2.symmetric = true; g2.range = g1.res; g2.alias = 1; g2.form = 0; g2.gcat = "alias_range_is_resolution";
      for (size_t d = 0; d < D; ++d) {g2.lo[d] = -g1.res; g2.hi[d] = g1.res; g2.kinds[d] = GENERIC;}
      g2.trivial = false; g2.hash = vh::hash_addi(g1.hash, 0xa11a5);
      c.cat(g2.gcat);
    } else if (mode == 11) {have = gen_cfg<S, D>(c, r, tname, g2, &g1.res);} else {
      have = gen_cfg<S, D>(c, r, tname, g2);
    }
    if (have) {
      const char * phase = "";
      switch (mode) {
        case 1: case 2: case 3:
          phase = "reassigned_from_fresh_temporary"; *grid = make_grid(g2); break;
        case 4: {
            phase = "reassigned_from_source_with_indexes_used";
            G src = make_grid(g2); touch_indexes<S, D>(src, g2); *grid = src;
          } break;
        case 5: {
            phase = "reassigned_from_source_with_centres_used";
            G src = make_grid(g2); touch_centres<S, D>(src); *grid = src;
          } break;
        case 6: {
            phase = "reassigned_from_checked_source";
            G src = make_grid(g2);
            check_grid<S, D>(c, r, tname, g2, src, "constructed", 0);
            *grid = src;
          } break;
        case 7: {
            phase = "reassigned_by_move";
            G src = make_grid(g2);
            if (r.coin()) {touch_centres<S, D>(src);}
            *grid = std::move(src);
            // a moved-from object may be assigned to and must then be as good as new
            src = make_grid(g1);
            expect_same_as_fresh<S, D>(c, g1, src, "moved_from_then_assigned", 7);
          } break;
        case 8: {
            // two assignments in a row; the intermediate configuration is used or not
            phase = "reassigned_twice";
            Cfg<S, D> gm;
            if (gen_cfg<S, D>(c, r, tname, gm)) {
              *grid = make_grid(gm);
              if (r.coin()) {touch_centres<S, D>(*grid);}
            }
            *grid = make_grid(g2);
          } break;
        case 9: {
            phase = "reassigned_from_copy_of_itself";
            G cp(*grid);
            if (r.coin()) {touch_centres<S, D>(cp);}
            *grid = cp;
            G & self = *grid;
            *grid = self;
          } break;
        case 10: case 11: {
            // arguments are references handed out by the target's own getter, no copy in between;
            // the expected configuration uses the VALUE of that resolution at call time (g1.res)
            phase = "reassigned_from_own_getters";
            const S & own = grid->getCellResolution();
            *grid = make_grid(g2, &own);
          } break;
        default: {
            // long history: 2^8+k or 2^16+k assignments of alternating small configurations (every 7th
            // one used), the final configuration, then as many queries, before the oracles look
            phase = lh16 ? "reassigned_after_2p16_history" : "reassigned_after_2p8_history";
            const uint64_t n = (lh16 ? 65536u : 256u) + (uint64_t)kextra;
            for (uint64_t i = 0; i < n; ++i) {
              if (i & 1) {*grid = G(S(1.25), S(0.5));} else {*grid = G(S(2), S(1));}
              if (i % 7 == 3) {touch_centres<S, D>(*grid);}
            }
            *grid = make_grid(g2);
            typename G::PointType p0 = probe_point(g2, 0), p2 = probe_point(g2, 2);
            size_t acc = 0;
            for (uint64_t i = 0; i < n; ++i) {
              acc += grid->computeCellIndexes((i & 1) ? p0 : p2)[0];
              if (i % 64 == 5) {acc += grid->getCellCentersPositionAlong(i % D).size();}
            }
            volatile size_t sink = acc; (void)sink;
          }
      }
      c.cat("reassigned");
      c.cat(phase);
      c.cat(pre == 0 ? "reassigned_target_never_used" : pre == 1 ? "reassigned_target_indexes_used" :
        pre == 2 ? "reassigned_target_centres_used" : "reassigned_target_fully_checked");
      check_grid<S, D>(c, r, tname, g2, *grid, phase, mode);
      expect_same_as_fresh<S, D>(c, g2, *grid, phase, mode);
      h = vh::hash_addi(vh::hash_addi(h, g2.hash), (uint64_t)(mode * 8 + pre));
      trivial = trivial && g2.trivial;
      gcur = g2; cur_mode = mode;
    }
  }
  if (related) {
    static const char * const OPN[] = {"related_op_assign_temporary", "related_op_copy_assign", "related_op_move_assign",
      "related_op_assign_after_default_construction", "related_op_alternating_history"};
    // one re-use operation taking the object from configuration `from` to configuration `to`
    auto apply = [&](int op, const Cfg<S, D> & from, const Cfg<S, D> & to) {
        switch (op) {
          case 1: {G src = make_grid(to); if (r.coin()) {touch_centres<S, D>(src);} *grid = src;} break;
          case 2: {G src = make_grid(to); if (r.coin()) {touch_centres<S, D>(src);} *grid = std::move(src);} break;
          case 4: {
              // from, to, from, to, ... 2^8+k times (2^16+k in 1/40 of these cases on full-size workloads),
              // from lvalue sources, every 7th state used, ending on `to`
              const uint64_t n = ((lh16draw || r.coin(1.0 / 40)) && c.N > 50000 ? 65536u : 256u) + (uint64_t)kextra;
              const G A = make_grid(from), B = make_grid(to);
              for (uint64_t i = 0; i < n; ++i) {
                *grid = (i & 1) ? B : A;
                if (i % 7 == 3) {touch_centres<S, D>(*grid);}
              }
              *grid = B;
            } break;
          default: *grid = make_grid(to);
        }
      };
    apply(rop, g1, grel);
    c.cat(OPN[rop]);
    c.cat(pre == 0 ? "reassigned_target_never_used" : pre == 1 ? "reassigned_target_indexes_used" :
      pre == 2 ? "reassigned_target_centres_used" : "reassigned_target_fully_checked");
    check_grid<S, D>(c, r, tname, grel, *grid, REL_NAME[rel], 40 + rel);
    expect_same_as_fresh<S, D>(c, grel, *grid, REL_NAME[rel], 40 + rel);
    h = vh::hash_addi(vh::hash_addi(h, grel.hash), (uint64_t)(1000 + rel * 8 + rop));
    trivial = trivial && grel.trivial;
    gcur = grel; cur_mode = 40 + rel;
    if (r.coin()) {
      // and back again, by another operation
      const int op2 = (int)r.range(0, 2);
      apply(op2, grel, g1);
      c.cat("related_op_assign_back");
      check_grid<S, D>(c, r, tname, g1, *grid, "related_pair_assigned_back", 60 + rel);
      expect_same_as_fresh<S, D>(c, g1, *grid, "related_pair_assigned_back", 60 + rel);
      gcur = g1; cur_mode = 60 + rel;
    }
  }
  c.distinct(h, !trivial);

  // ---------------------------------------------------------------- value semantics
  if (r.coin(0.08)) {
    const int v = (int)r.range(0, 3);
    static const char * const VN[] = {"copy_constructed_from_used_object", "copy_assigned_from_used_object",
      "move_constructed_from_copy_of_used_object", "move_assigned_from_copy_of_used_object"};
    c.cat("value_semantics");
    c.cat(VN[v]);
    const Probe<S, D> src0 = take_probe(*grid, gcur);
    std::unique_ptr<G> cp;
    if (v == 0) {cp.reset(new G(*grid));} else if (v == 1) {
      cp.reset(new G(S(2), S(1))); touch_centres<S, D>(*cp); *cp = *grid;
    } else if (v == 2) {
      G t(*grid); cp.reset(new G(std::move(t))); t = G(S(1.25), S(0.5)); touch_centres<S, D>(t);
    } else {
      G t(*grid); cp.reset(new G()); *cp = std::move(t); t = G(S(1.25), S(0.5)); touch_centres<S, D>(t);
    }
    check_grid<S, D>(c, r, tname, gcur, *cp, VN[v], 20 + v);
    const Probe<S, D> src1 = take_probe(*grid, gcur);
    c.expect("source_unaffected_by_copy_use", src0 == src1, "source_changed_by_copy_use",
      [&]() {return light_params(gcur, 20 + v);}, [&]() {
        return vh::J().raw("grid", cfg_json(gcur, VN[v])).raw("before", src0.json()).raw("after", src1.json()).str();
      });
    // results of the copy bound by reference, kept while the source is overwritten or destroyed
    const Bound<S, D> bc = bind_refs(*cp);
    const Probe<S, D> cp0 = take_probe(*cp, bc, gcur);
    if (r.coin()) {*grid = G(S(2), S(1)); touch_centres<S, D>(*grid);} else {grid.reset();}
    const Probe<S, D> cp1 = take_probe(*cp, bc, gcur);
    c.expect("copy_survives_source", cp0 == cp1, "copy_changed_with_source",
      [&]() {return light_params(gcur, 20 + v);}, [&]() {
        return vh::J().raw("grid", cfg_json(gcur, VN[v])).raw("before", cp0.json()).raw("after", cp1.json()).str();
      });
    expect_same_as_fresh<S, D>(c, gcur, *cp, VN[v], 20 + v);
    if (r.coin(0.3)) {check_grid<S, D>(c, r, tname, gcur, *cp, "copy_after_source_overwritten_or_destroyed", 30 + v);}
    (void)cur_mode;
  }
}

void one_case(vh::Ctx & c, uint64_t idx)
{
  vh::Rng r(c.seed, idx);
  switch (idx % 4) {
    case 0: grid_case<float, 2>(c, r, "float2"); break;
    case 1: grid_case<double, 2>(c, r, "double2"); break;
    case 2: grid_case<float, 3>(c, r, "float3"); break;
    default: grid_case<double, 3>(c, r, "double3");
  }
}

}  // namespace

int main(int argc, char ** argv)
{
  return vh::run(argc, argv, "C13", {120000, 2000000}, one_case, [](vh::Ctx & c) {
      // DESIGN C13: the allowance is decisive (16 eps S < res/4, an off-by-one cell cannot hide in it)
      // on at least 90 % of the axes this shard generated -- counted on the float axes alone, the
      // double axes are always decisive; otherwise the counter stays 0 and vcheck reports the run
      // as inconclusive.  (Shards are case index mod nshards and the scalar type is case index mod 4,
      // so with 4 or 16 shards half of them see no float axis and never add to the counter.)
      uint64_t t = c.counters["axes_total"], d = c.counters["axes_decisive"];
      uint64_t ft = c.counters["float_axes_total"], fd = c.counters["float_axes_decisive"];
      if (t > 0 && 10 * d >= 9 * t && ft > 0 && 10 * fd >= 9 * ft) {c.count("shards_with_ge_90pct_decisive_axes");}
    });
}
