// C16  Sliding-window statistics (OnlineAverage / OnlineVariance) and RingOfEigenVector reflect
//      exactly the last W items, for every history of update/reset (append/clear).
//
// Oracle (independent of the code under test): an executable reference model that keeps the
// *whole* history since the last reset and recomputes everything from scratch after every
// operation, in exact integer arithmetic (__int128):
//   v_i      = trunc(x_i * m), m = 1/precision (an integer for every generated precision), computed
//              from the mantissa/exponent of the double x_i -- no floating-point product involved;
//   average  = (sum of the last min(n,W) v_i) / (m * min(n,W))              (one long-double division)
//   variance = (W * sum v^2 - (sum v)^2) / (W (W-1) m^2)    once n >= W      (one long-double division)
//   available <=> n >= W
//   ring     : size() == min(n,W), ring[k] == k-th most recent append since the last clear(); the
//              appended item is the VALUE of the argument at the call, also when the argument is
//              ring[k] itself or an unevaluated Eigen expression of the ring's own entries.
// Samples are generated so that x*m is an exact integer, or is at least 1e-6 away from every
// non-zero integer (|x*m| <= 1e8, so the rounding of the double product, <= 1.2e-8, cannot move
// it across an integer): the truncation the statement talks about is then unambiguous.
//
// Tolerances (DESIGN 2.6): the sums are integers, hence exact; what is left is the rounding of
// the final expression.
//   average : one correctly rounded division of exact operands => error <= 0.5 ulp; tol = 4 eps |mean|.
//   variance: the final subtraction  X - Y,  X = sum(x^2), Y = n*avg^2 <= X, has conditioning
//             X/((W-1) var); tol = 16 eps X/(W-1).  First-order worst case of a straightforward
//             evaluation, u = eps/2: X carries 2u (conversion of the 64-bit sum of squares, division
//             by m^2), Y carries 4u (avg, avg*avg, product by n), the subtraction and the division by
//             W-1 one u each: <= (2u X + 4u Y + 2u X)/(W-1) <= 4 eps X/(W-1); the tolerance leaves a
//             factor 4 above that bound (DESIGN proposed 8 eps; observed ratios were then 0.26-0.31,
//             above the 0.25 calibration gate, hence 16).
// Neither tolerance grows with the length of the history: drift would show up.
#include <Eigen/Core>
#include <array>
#include <memory>
#include "romea_core_common/containers/Eigen/RingOfEigenVector.hpp"
#include "romea_core_common/monitoring/OnlineAverage.hpp"
#include "romea_core_common/monitoring/OnlineVariance.hpp"
#include "vh.hpp"

using romea::core::OnlineAverage;
using romea::core::OnlineVariance;
using romea::core::RingOfEigenVector;
typedef long double LD;
typedef __int128 I128;
typedef unsigned __int128 U128;

static const double EPS = std::numeric_limits<double>::epsilon();

// ---------------------------------------------------------------------------------------------
// precisions: the literal is what the library receives, m is the scale factor the statement
// implies (1/precision).  First nine = DESIGN's list, the others are further reciprocals of
// integers inside [1e-6, 1].
// ---------------------------------------------------------------------------------------------
struct Prec {double p; long long m;};
static const Prec PRECS[] = {
  {1.0, 1}, {0.5, 2}, {0.25, 4}, {0.1, 10}, {0.01, 100}, {1e-3, 1000}, {1e-4, 10000},
  {1e-5, 100000}, {1e-6, 1000000},
  {0.2, 5}, {0.125, 8}, {0.05, 20}, {0.002, 500}, {2e-5, 50000}, {5e-6, 200000}};
static const int N_MAIN_PREC = 9, N_PREC = 15;

static Prec pick_prec(vh::Rng & r)
{
  if (r.coin(0.8)) {return PRECS[r.range(0, N_MAIN_PREC - 1)];}
  return PRECS[r.range(N_MAIN_PREC, N_PREC - 1)];
}

// ---------------------------------------------------------------------------------------------
// exact trunc(x*m); returns false when the sample is outside the generated domain
// (|x*m| > 1e8) or when the truncation is ambiguous (within 1e-6 of a non-zero integer without
// being one).
// ---------------------------------------------------------------------------------------------
static bool exact_trunc(double x, long long m, long long & v)
{
  if (!std::isfinite(x)) {return false;}
  if (x == 0.0) {v = 0; return true;}
  int e;
  double fr = std::frexp(std::fabs(x), &e);          // |x| = fr * 2^e, fr in [0.5, 1)
  uint64_t mant = (uint64_t)std::ldexp(fr, 53);      // exact integer < 2^53
  int sh = e - 53;                                   // |x| = mant * 2^sh
  U128 prod = (U128)mant * (U128)m;                  // < 2^73, exact
  U128 q, rem = 0;
  int s = -sh;
  if (sh >= 0) {
    if (sh > 30) {return false;}
    q = prod << sh;
  } else if (s >= 120) {
    q = 0; rem = 1; s = 120;                         // tiny: |x*m| < 2^-40, fraction irrelevant
  } else {
    q = prod >> s;
    rem = prod - (q << s);
  }
  if (q > (U128)100000000ULL || (q == (U128)100000000ULL && rem != 0)) {return false;}
  if (rem != 0) {
    LD frac = (LD)rem / ldexpl(1.0L, s);             // in (0,1)
    bool near_up = (1.0L - frac) < 1e-6L;            // next integer (q+1) is never zero
    bool near_down = frac < 1e-6L && q != 0;
    if (near_up || near_down) {return false;}
  }
  long long a = (long long)q;
  v = x < 0 ? -a : a;
  return true;
}

// ---------------------------------------------------------------------------------------------
// sample generators
// ---------------------------------------------------------------------------------------------
struct ValueGen
{
  int mode;
  long long m;
  double A;        // amplitude bound for this history
  double centre;   // offset for the cancellation mode
  double spread;
  double constant;
  int v2m;         // 2-adic valuation of m
};

static ValueGen make_gen(vh::Rng & r, long long m)
{
  ValueGen g;
  g.m = m;
  g.mode = (int)r.range(0, 6);
  double top = 0.999e8 / (double)m;
  g.A = r.coin(0.25) ? top : r.logu(1.0 / (double)m, top);
  g.centre = r.sign() * top * r.uni(0.1, 0.98);
  g.spread = r.logu(1.0 / (double)m, top * 0.01);
  g.constant = r.uni(-g.A, g.A);
  g.v2m = 0;
  for (long long t = m; t % 2 == 0; t /= 2) {++g.v2m;}
  return g;
}

static double raw_sample(vh::Rng & r, const ValueGen & g)
{
  int mode = g.mode;
  if (mode == 6) {mode = (int)r.range(0, 5);}       // mixed history
  switch (mode) {
    case 0: {   // dyadic: x*m exact integer, or a multiple of 2^-k (k <= 12) away from one
        int s = (int)r.range(0, g.v2m + (r.coin(0.3) ? 12 : 0));
        double lim = std::min(g.A, 4.0e15 / (double)g.m) * std::ldexp(1.0, s);
        long long j = (long long)(r.uni(-1, 1) * std::min(lim, 9.0e15));
        if (r.coin(0.3)) {j = r.range(-8, 8);}
        return std::ldexp((double)j, -s);
      }
    case 1: return r.uni(-g.A, g.A);
    case 2: return g.centre + r.uni(-g.spread, g.spread);        // large offset, small spread
    case 3: {   // extremes of the domain, zeros, denormals
        switch ((int)r.range(0, 6)) {
          case 0: return 0.0;
          case 1: return -0.0;
          case 2: return r.sign() * 0.999e8 / (double)g.m;
          case 3: return r.sign() * 1.0e8 / (double)g.m;        // accepted only when exact
          case 4: return r.sign() * r.logu(1e-310, 1e-12);
          case 5: return r.sign() * (double)r.range(0, 100000000) / (double)g.m;
          default: return r.sign() * r.uni(0.0, 1.0) / (double)g.m;   // |x*m| < 1: truncates to 0
        }
      }
    case 4: return g.constant;
    default: return g.centre * 1e-3 + g.spread * r.normal();
  }
}

// draws until the truncation of the sample is unambiguous; v = exact trunc(x*m)
static uint64_t g_samples = 0, g_redraws = 0, g_fallbacks = 0;
static double sample(vh::Rng & r, const ValueGen & g, long long & v)
{
  ++g_samples;
  for (int i = 0; i < 200; ++i) {
    double x = raw_sample(r, g);
    if (exact_trunc(x, g.m, v)) {return x;}
    ++g_redraws;
  }
  ++g_fallbacks;
  v = 0;
  return 0.0;
}

// ---------------------------------------------------------------------------------------------
// histories
// ---------------------------------------------------------------------------------------------
struct Op {bool reset; double x; long long v;};

struct ResetPlan
{
  int mode;            // 0 none, 1 bernoulli, 2 targeted phase of the window, 3 bursts
  double q;
  long long target;
  int W;
  void init(vh::Rng & r, int w)
  {
    W = w;
    mode = (int)r.range(0, 3);
    q = 1.0 / ((double)w * r.uni(0.5, 4.0));
    next_target(r);
  }
  void next_target(vh::Rng & r)
  {
    switch ((int)r.range(0, 8)) {
      case 0: target = 0; break;
      case 1: target = 1; break;
      case 2: target = W - 1; break;
      case 3: target = W; break;
      case 4: target = W + 1; break;
      case 5: target = 2 * W - 1; break;
      case 6: target = 2 * W; break;
      case 7: target = 2 * W + 1; break;
      default: target = r.range(0, 3 * W); break;
    }
  }
  // decides whether the next operation is a reset, given the number of items since the last one
  bool fire(vh::Rng & r, long long n_since, bool last_was_reset)
  {
    switch (mode) {
      case 0: return false;
      case 1: return r.coin(q);
      case 2:
        if (n_since == target && !(last_was_reset && target == 0)) {next_target(r); return true;}
        if (n_since > target) {next_target(r);}
        return false;
      default:
        if (last_was_reset) {return r.coin(0.5);}
        return r.coin(q);
    }
  }
};

static std::string ops_json(const std::vector<Op> & ops, size_t upto)
{
  std::string o = "[";
  for (size_t i = 0; i <= upto && i < ops.size(); ++i) {
    if (i) {o += ",";}
    o += ops[i].reset ? std::string("\"reset\"") : vh::jnum(ops[i].x);
  }
  return o + "]";
}

struct HistoryFacts {bool wrapped = false; bool reset_then_update = false; bool reset_mid_window = false;
  int resets = 0; int updates = 0;
  // ring only: appends whose argument aliases the ring's own state
  int alias_appends = 0; bool alias_perm_of_evicted = false;};

// ---------------------------------------------------------------------------------------------
// statistics: drive one object through one history, checking after every operation.
// returns false after the first violation (the rest of the history is then not informative).
// ---------------------------------------------------------------------------------------------
struct StatCfg {bool variance; int W; Prec prec; bool via_set_window; const char * cat;};

static bool run_stats(vh::Ctx & c, const StatCfg & s, const std::vector<Op> & ops, HistoryFacts & hf)
{
  std::unique_ptr<OnlineAverage> obj;
  OnlineVariance * var = nullptr;
  if (s.variance) {
    var = s.via_set_window ? new OnlineVariance(s.prec.p) : new OnlineVariance(s.prec.p, (size_t)s.W);
    obj.reset(var);
  } else {
    obj.reset(s.via_set_window ? new OnlineAverage(s.prec.p) : new OnlineAverage(s.prec.p, (size_t)s.W));
  }
  if (s.via_set_window) {obj->setWindowSize((size_t)s.W);}

  std::vector<long long> hist;     // truncated samples since the last reset (reference state)
  const long long m = s.prec.m;
  const int W = s.W;
  bool had_reset_after_data = false;

  for (size_t i = 0; i < ops.size(); ++i) {
    if (ops[i].reset) {
      if (!hist.empty()) {
        had_reset_after_data = true;
        if (hist.size() % (size_t)W != 0) {hf.reset_mid_window = true;}
      }
      hist.clear();
      obj->reset();
      ++hf.resets;
    } else {
      hist.push_back(ops[i].v);
      obj->update(ops[i].x);
      ++hf.updates;
      if (had_reset_after_data) {hf.reset_then_update = true;}
      if ((long long)hist.size() > W) {hf.wrapped = true;}
    }
    const long long n = (long long)hist.size();
    const long long cnt = std::min<long long>(n, W);
    // everything the (rarely called) params / witness builders need lives in F, so that the
    // closures below hold a single reference (no heap allocation inside std::function)
    struct Frame
    {
      const StatCfg & s; const std::vector<Op> & ops; const HistoryFacts & hf; size_t i; long long n;
      bool avail; double got; LD expected; LD sumsq;
      vh::Params params() const
      {
        return vh::Params{{"W", (double)s.W}, {"precision", s.prec.p}, {"multiplier", (double)s.prec.m},
          {"variance_object", s.variance ? 1.0 : 0.0}, {"n_since_reset", (double)n},
          {"resets", (double)hf.resets}, {"n_over_W", (double)(n - s.W)},
          {"via_setWindowSize", s.via_set_window ? 1.0 : 0.0}, {"op_index", (double)i}};
      }
      std::string wit() const
      {
        return vh::J().s("cat", s.cat).s("class", s.variance ? "OnlineVariance" : "OnlineAverage")
               .f("W", s.W).f("precision", s.prec.p).f("multiplier", (int64_t)s.prec.m)
               .boolean("via_setWindowSize", s.via_set_window).f("failing_op", (uint64_t)i)
               .raw("ops", ops_json(ops, i)).str();
      }
    } F{s, ops, hf, i, n, false, 0.0, 0.0L, 0.0L};
    auto params = [&F]() {return F.params();};
    // --- availability: exactly when W samples have arrived since the last reset
    F.avail = obj->isAvailable();
    if (!c.expect("availability.iff_window_full", F.avail == (n >= W), "availability_mismatch", params,
      [&F]() {return vh::J().raw("case", F.wit()).boolean("isAvailable", F.avail).f("n", (int64_t)F.n).str();}))
    {
      return false;
    }
    if (n == 0) {continue;}       // mean of zero samples: nothing stated
    // --- average
    I128 S = 0, Q = 0;
    for (long long k = n - cnt; k < n; ++k) {S += hist[(size_t)k]; Q += (I128)hist[(size_t)k] * hist[(size_t)k];}
    LD mean = (LD)S / ((LD)m * (LD)cnt);
    F.got = obj->getAverage();
    F.expected = mean;
    LD err = fabsl((LD)F.got - mean);
    if (!c.expect_le("average.vs_exact_mean", err, 4 * (LD)EPS * fabsl(mean), "average_mismatch", params,
      [&F]() {return vh::J().raw("case", F.wit()).f("got", F.got).f("expected", F.expected).f("n", (int64_t)F.n).str();}))
    {
      return false;
    }
    // --- variance, once the window is full
    if (var != nullptr && n >= W) {
      I128 num = (I128)W * Q - S * S;                 // >= 0 (Cauchy-Schwarz), exact
      LD den = (LD)W * (LD)(W - 1) * (LD)m * (LD)m;
      LD expv = (LD)num / den;
      LD sumsq = (LD)Q / ((LD)m * (LD)m);
      F.got = var->getVariance();
      F.expected = expv;
      F.sumsq = sumsq;
      LD verr = fabsl((LD)F.got - expv);
      if (!c.expect_le("variance.vs_exact_unbiased", verr, 16 * (LD)EPS * sumsq / (LD)(W - 1),
        "variance_mismatch", params,
        [&F]() {return vh::J().raw("case", F.wit()).f("got", F.got).f("expected", F.expected).f("sum_x2", F.sumsq).str();}))
      {
        return false;
      }
    }
  }
  return true;
}

static std::vector<Op> gen_stat_history(vh::Rng & r, int W, const ValueGen & g, int & plan_mode)
{
  long long L = r.range(0, 10 * W);
  ResetPlan plan;
  plan.init(r, W);
  plan_mode = plan.mode;
  std::vector<Op> ops;
  ops.reserve((size_t)L);
  long long n_since = 0;
  bool last_reset = false;
  for (long long i = 0; i < L; ++i) {
    if (plan.fire(r, n_since, last_reset)) {
      ops.push_back({true, 0.0, 0});
      n_since = 0; last_reset = true;
    } else {
      Op o; o.reset = false; o.x = sample(r, g, o.v);
      ops.push_back(o);
      ++n_since; last_reset = false;
    }
  }
  return ops;
}

static void note_facts(vh::Ctx & c, const HistoryFacts & hf, const char * prefix)
{
  std::string p(prefix);
  if (hf.wrapped) {c.cat(p + "_history_wrapped");}
  if (hf.reset_then_update) {c.cat(p + "_history_reset_then_data");}
  if (hf.reset_mid_window) {c.cat(p + "_history_reset_mid_window");}
  if (hf.alias_appends > 0) {
    c.cat(p + "_append_aliasing_own_entry");
    c.count(p + "_alias_appends", (uint64_t)hf.alias_appends);
  }
  if (hf.alias_perm_of_evicted) {c.cat(p + "_append_permuting_expr_of_evicted_entry");}
  c.count(p + "_updates", (uint64_t)hf.updates);
  c.count(p + "_resets", (uint64_t)hf.resets);
}

// ---------------------------------------------------------------------------------------------
// ring buffer
// ---------------------------------------------------------------------------------------------
// Arguments that alias the object's own state: about a third of the appends on a non-empty ring
// pass ring[k] itself (by reference) or an UNEVALUATED Eigen expression of existing entries
// (reverse, cyclic shift, negation, sum, scaling), k being the oldest entry -- the one a full
// ring evicts -- 45 % of the time.  The appended item is the value of the argument at the call:
// the reference model evaluates the same expression on its own copy of the entries before the append.
struct AliasRec {int kind; int k; int j;};
static const char * const ALIAS_NAME[] = {"append", "append:ring[k]", "append:ring[k].reverse()", "append:-ring[k]",
  "append:ring[k]+ring[j]", "append:2*ring[k]", "append:ring[k].reverse()+ring[j]", "append:ring[k](cyclic shift)"};

template<class V>
static bool run_ring(vh::Ctx & c, vh::Rng & ra, int cap, const std::vector<Op> & ops, const char * cat,
  const char * tname, HistoryFacts & hf)
{
  typedef typename V::Scalar Sc;
  constexpr int N = V::RowsAtCompileTime;
  std::array<int, N> shift;
  for (int d = 0; d < N; ++d) {shift[(size_t)d] = (d + 1) % N;}
  std::vector<AliasRec> recs(ops.size(), AliasRec{0, 0, 0});
  RingOfEigenVector<V> ring((size_t)cap);
  std::vector<V, Eigen::aligned_allocator<V>> hist;     // everything appended since the last clear
  bool had_clear_after_data = false;
  int serial = 0;
  bool pow2 = (cap & (cap - 1)) == 0;
  for (size_t i = 0; i < ops.size(); ++i) {
    if (ops[i].reset) {
      if (!hist.empty()) {
        had_clear_after_data = true;
        if (hist.size() % (size_t)cap != 0) {hf.reset_mid_window = true;}
      }
      hist.clear();
      ring.clear();
      ++hf.resets;
    } else {
      V v;
      ++serial;
      for (int d = 0; d < v.size(); ++d) {
        v(d) = (typename V::Scalar)(d == 0 ? (double)serial : ops[i].x + d);
      }
      AliasRec ar{0, 0, 0};
      const long long sz0 = std::min<long long>((long long)hist.size(), cap);
      if (sz0 > 0 && ra.coin(0.35)) {
        ar.kind = (int)ra.range(1, 7);
        ar.k = ra.coin(0.45) ? (int)(sz0 - 1) : (int)ra.range(0, sz0 - 1);
        ar.j = (int)ra.range(0, sz0 - 1);
        const V mk = hist[hist.size() - 1 - (size_t)ar.k], mj = hist[hist.size() - 1 - (size_t)ar.j];   // model copies
        V e;
        switch (ar.kind) {
          case 1: e = mk; break;
          case 2: e = mk.reverse(); break;
          case 3: e = -mk; break;
          case 4: e = mk + mj; break;
          case 5: e = Sc(2) * mk; break;
          case 6: e = mk.reverse() + mj; break;
          default: for (int d = 0; d < N; ++d) {e(d) = mk((d + 1) % N);} break;
        }
        // keep magnitudes bounded (repeated doubling / summing) so that no inf/NaN can arise
        if (e.allFinite() && (double)e.cwiseAbs().maxCoeff() < 1e30) {v = e;} else {ar.kind = 0;}
      }
      recs[i] = ar;
      const size_t k = (size_t)ar.k, j = (size_t)ar.j;
      switch (ar.kind) {
        case 0: ring.append(v); break;
        case 1: ring.append(ring[k]); break;
        case 2: ring.append(ring[k].reverse()); break;
        case 3: ring.append(-ring[k]); break;
        case 4: ring.append(ring[k] + ring[j]); break;
        case 5: ring.append(Sc(2) * ring[k]); break;
        case 6: ring.append(ring[k].reverse() + ring[j]); break;
        default: ring.append(ring[k](shift)); break;
      }
      if (ar.kind != 0) {
        ++hf.alias_appends;
        if ((ar.kind == 2 || ar.kind == 6 || ar.kind == 7) && sz0 == cap && ar.k == (int)(sz0 - 1) && N > 1) {
          hf.alias_perm_of_evicted = true;
        }
      }
      hist.push_back(v);
      ++hf.updates;
      if (had_clear_after_data) {hf.reset_then_update = true;}
      if ((int)hist.size() > cap) {hf.wrapped = true;}
    }
    const long long n = (long long)hist.size();
    const long long expect_size = std::min<long long>(n, cap);
    struct Frame
    {
      const std::vector<Op> & ops; const std::vector<AliasRec> & recs; const HistoryFacts & hf;
      const RingOfEigenVector<V> & ring;
      const std::vector<V, Eigen::aligned_allocator<V>> & hist;
      const char * cat; const char * tname; int cap; bool pow2; size_t i; long long n; long long kbad; size_t sz;
      vh::Params params() const
      {
        return vh::Params{{"capacity", (double)cap}, {"capacity_is_pow2", pow2 ? 1.0 : 0.0},
          {"n_since_clear", (double)n}, {"clears", (double)hf.resets}, {"k", (double)kbad},
          {"n_over_capacity", (double)(n - cap)}, {"op_index", (double)i},
          {"alias_kind_of_failing_op", (double)recs[i].kind}, {"alias_appends", (double)hf.alias_appends}};
      }
      std::string wit() const
      {
        std::string o = "[";
        for (size_t j = 0; j <= i; ++j) {
          if (j) {o += ",";}
          if (ops[j].reset) {o += "\"clear\""; continue;}
          o += "\"" + std::string(ALIAS_NAME[recs[j].kind]);
          if (recs[j].kind != 0) {o += " k=" + std::to_string(recs[j].k) + " j=" + std::to_string(recs[j].j);}
          o += "\"";
        }
        o += "]";
        return vh::J().s("cat", cat).s("element", tname).f("capacity", cap).f("failing_op", (uint64_t)i)
               .raw("ops", o).str();
      }
    } F{ops, recs, hf, ring, hist, cat, tname, cap, pow2, i, n, -1, ring.size()};
    auto params = [&F]() {return F.params();};
    if (!c.expect("ring.size_is_min_n_capacity", (long long)F.sz == expect_size, "ring_size_mismatch", params,
      [&F]() {
        return vh::J().raw("case", F.wit()).f("size", (uint64_t)F.sz)
               .f("expected", (int64_t)std::min<long long>(F.n, F.cap)).str();
      }))
    {
      return false;
    }
    bool ok = true;
    for (long long k = 0; k < expect_size; ++k) {
      const V & got = ring[(size_t)k];
      const V & exp = hist[(size_t)(n - 1 - k)];
      if (!(got.array() == exp.array()).all()) {ok = false; F.kbad = k; break;}
    }
    if (expect_size > 0) {
      if (!c.expect("ring.kth_most_recent", ok, "ring_entry_mismatch", params, [&F]() {
          const V & got = F.ring[(size_t)F.kbad];
          const V & exp = F.hist[(size_t)(F.n - 1 - F.kbad)];
          return vh::J().raw("case", F.wit()).f("k", (int64_t)F.kbad).raw("got", vh::jvec(got))
                 .raw("expected", vh::jvec(exp)).f("got_is_append_number", (double)got(0))
                 .f("expected_append_number", (double)exp(0)).str();
        }))
      {
        return false;
      }
    }
  }
  return true;
}

static bool run_ring_typed(vh::Ctx & c, vh::Rng & ra, int type, int cap, const std::vector<Op> & ops,
  const char * cat, HistoryFacts & hf)
{
  switch (type) {
    case 0: return run_ring<Eigen::Vector2d>(c, ra, cap, ops, cat, "Vector2d", hf);
    case 1: return run_ring<Eigen::Vector3d>(c, ra, cap, ops, cat, "Vector3d", hf);
    case 2: return run_ring<Eigen::Vector4d>(c, ra, cap, ops, cat, "Vector4d", hf);
    case 3: return run_ring<Eigen::Vector2f>(c, ra, cap, ops, cat, "Vector2f", hf);
    case 4: return run_ring<Eigen::Vector3f>(c, ra, cap, ops, cat, "Vector3f", hf);
    default: return run_ring<Eigen::Matrix<double, 6, 1>>(c, ra, cap, ops, cat, "Vector6d", hf);
  }
}

// ---------------------------------------------------------------------------------------------
// small-scope exhaustive part: every sequence over {update a, update b, reset} of depth 7 for
// W <= 3 (prefixes are checked on the way).  8 (class, W) combinations x 81 blocks; a block fixes
// the first four operations and enumerates the 27 continuations.
// ---------------------------------------------------------------------------------------------
static const uint64_t EXH_COMBOS = 8, EXH_BLOCKS = 81, EXH_CASES = EXH_COMBOS * EXH_BLOCKS;

static void exhaustive_case(vh::Ctx & c, vh::Rng & r, uint64_t idx)
{
  static const struct {int cls; int W;} COMBO[EXH_COMBOS] = {
    {0, 1}, {0, 2}, {0, 3}, {1, 2}, {1, 3}, {2, 1}, {2, 2}, {2, 3}};
  const auto combo = COMBO[idx / EXH_BLOCKS];
  const uint64_t block = idx % EXH_BLOCKS;
  const char * cat = "exhaustive_small_scope";
  c.cat(cat);
  c.cat(combo.cls == 0 ? "exhaustive_average" : combo.cls == 1 ? "exhaustive_variance" : "exhaustive_ring");
  Prec prec = pick_prec(r);
  ValueGen g = make_gen(r, prec.m);
  Op a, b;
  a.reset = false; b.reset = false;
  a.x = sample(r, g, a.v);
  b.x = a.x;
  for (int t = 0; t < 50 && b.x == a.x; ++t) {b.x = sample(r, g, b.v);}
  if (b.x == a.x) {b.x = a.x + 1.0 / (double)prec.m; if (!exact_trunc(b.x, prec.m, b.v)) {b = a;}}
  int rtype = (int)r.range(0, 5);
  bool via_set = r.coin(0.25);
  c.distinct(vh::hash_doubles({-1.0, (double)combo.cls, (double)combo.W, (double)block, prec.p, a.x, b.x}), true);
  c.sample(cat, [&]() {
      return vh::J().s("cat", cat).f("class", combo.cls).f("W", combo.W).f("block", block)
             .f("precision", prec.p).f("a", a.x).f("b", b.x).str();
    });
  for (int tail = 0; tail < 27; ++tail) {
    std::vector<Op> ops;
    uint64_t code = block + EXH_BLOCKS * (uint64_t)tail;      // 7 base-3 digits
    for (int d = 0; d < 7; ++d) {
      int sym = (int)(code % 3); code /= 3;
      if (sym == 2) {ops.push_back({true, 0.0, 0});} else {ops.push_back(sym == 0 ? a : b);}
    }
    HistoryFacts hf;
    bool ok;
    if (combo.cls == 2) {
      vh::Rng ra(c.seed, idx, 100 + (uint64_t)tail);
      ok = run_ring_typed(c, ra, rtype, combo.W, ops, cat, hf);
      note_facts(c, hf, "exh_ring");
    } else {
      StatCfg s{combo.cls == 1, combo.W, prec, via_set, cat};
      ok = run_stats(c, s, ops, hf);
      note_facts(c, hf, combo.cls == 1 ? "exh_variance" : "exh_average");
    }
    c.count("exhaustive_sequences");
    if (!ok) {return;}
  }
}

// ---------------------------------------------------------------------------------------------
static void one_case(vh::Ctx & c, uint64_t idx)
{
  vh::Rng r(c.seed, idx);
  if (idx < EXH_CASES) {exhaustive_case(c, r, idx); return;}

  int cls = (int)r.range(0, 9);       // 0-3 average, 4-7 variance, 8-9 ring
  if (cls <= 7) {
    bool variance = cls >= 4;
    int W;
    int wk = (int)r.range(0, 9);
    int lo = variance ? 2 : 1;
    if (wk <= 4) {W = (int)r.range(lo, 64);} else if (wk <= 7) {W = (int)r.range(lo, 8);} else if (wk == 8) {
      W = 64;
    } else {W = lo;}
    Prec prec = pick_prec(r);
    ValueGen g = make_gen(r, prec.m);
    bool via_set = r.coin(0.2);
    const char * cat = variance ? "variance" : "average";
    c.cat(cat);
    if (via_set) {c.cat("ctor_then_setWindowSize");}
    if (prec.m > 46340) {c.cat("precision_fine_squared_multiplier_over_int32");}
    c.cat(std::string("precision_m_") + std::to_string(prec.m));
    c.cat(std::string("value_mode_") + std::to_string(g.mode));
    int plan_mode = 0;
    std::vector<Op> ops = gen_stat_history(r, W, g, plan_mode);
    c.cat(std::string("reset_plan_") + std::to_string(plan_mode));
    if (ops.empty()) {c.cat("history_empty");}
    uint64_t h = vh::hash_doubles({(double)cls, (double)W, prec.p, (double)ops.size(), via_set ? 1.0 : 0.0});
    for (size_t i = 0; i < ops.size(); ++i) {h = vh::hash_add(h, ops[i].reset ? 1e300 : ops[i].x);}
    c.sample(cat, [&]() {
        return vh::J().s("cat", cat).f("W", W).f("precision", prec.p).f("history_length", (uint64_t)ops.size())
               .f("value_mode", g.mode).f("reset_plan", plan_mode).boolean("via_setWindowSize", via_set)
               .raw("first_ops", ops_json(ops, 11)).str();
      });
    HistoryFacts hf;
    StatCfg s{variance, W, prec, via_set, cat};
    run_stats(c, s, ops, hf);
    note_facts(c, hf, cat);
    c.distinct(h, hf.wrapped || hf.reset_then_update);
    return;
  }
  // ---- ring
  const char * cat = "ring";
  c.cat(cat);
  int cap;
  int ck = (int)r.range(0, 3);
  if (ck <= 2) {cap = (int)r.range(1, 16);} else {
    static const int NP2[] = {3, 5, 6, 7, 9, 10, 11, 12, 13, 14, 15};
    cap = NP2[r.range(0, 10)];
  }
  bool pow2 = (cap & (cap - 1)) == 0;
  c.cat(pow2 ? "ring_capacity_pow2" : "ring_capacity_non_pow2");
  int type = (int)r.range(0, 5);
  c.cat(std::string("ring_element_type_") + std::to_string(type));
  ValueGen g = make_gen(r, 1);
  g.mode = 1;
  int plan_mode = 0;
  std::vector<Op> ops = gen_stat_history(r, cap, g, plan_mode);
  c.cat(std::string("clear_plan_") + std::to_string(plan_mode));
  uint64_t h = vh::hash_doubles({9.0, (double)cap, (double)type, (double)ops.size()});
  for (size_t i = 0; i < ops.size(); ++i) {h = vh::hash_add(h, ops[i].reset ? 1e300 : ops[i].x);}
  c.sample(cat, [&]() {
      return vh::J().s("cat", cat).f("capacity", cap).f("element_type", type)
             .f("history_length", (uint64_t)ops.size()).f("clear_plan", plan_mode).str();
    });
  HistoryFacts hf;
  vh::Rng ra(c.seed, idx, 1);       // separate stream: which appends alias the ring's own entries
  run_ring_typed(c, ra, type, cap, ops, cat, hf);
  note_facts(c, hf, "ring");
  c.distinct(h, hf.wrapped || hf.reset_then_update);
}

int main(int argc, char ** argv)
{
  return vh::run(argc, argv, "C16", {100000, 5000000}, one_case, [](vh::Ctx & c) {
      c.count("samples_generated", g_samples);
      c.count("samples_redrawn_ambiguous_or_out_of_domain", g_redraws);
      c.count("samples_replaced_by_zero_after_200_redraws", g_fallbacks);
    });
}
