// C16  Sliding-window statistics (OnlineAverage / OnlineVariance) and RingOfEigenVector reflect
//      exactly the last W items, for every history of update/reset (append/clear).
//
// Oracle (independent of the code under test): an executable reference model that keeps the
// *whole* history since the last reset and recomputes everything from scratch after every
// operation, in exact integer arithmetic (__int128):
//   v_i      = trunc(x_i * m), m = 1/precision (an integer for every generated precision), computed
//              from the mantissa/exponent of the double x_i -- no floating-point product involved;
//   average  = (sum of the last min(n,W) v_i) / (m * min(n,W))              (one long-double division)
//   variance = (W * sum v^2 - (sum v)^2) / (W (W-1) m^2)    once n >= W      (one long-double division)
//   available <=> n >= W
//   ring     : size() == min(n,W), ring[k] == k-th most recent append since the last clear(); the
//              appended item is the VALUE of the argument at the call, also when the argument is
//              ring[k] itself or an unevaluated Eigen expression of the ring's own entries.
// Samples are generated so that x*m is an exact integer, or is at least 1e-6 away from every
// non-zero integer (|x*m| <= 1e8, so the rounding of the double product, <= 1.2e-8, cannot move
// it across an integer): the truncation the statement talks about is then unambiguous.
//
// Tolerances (DESIGN 2.6): the sums are integers, hence exact; what is left is the rounding of
// the final expression.
//   average : one correctly rounded division of exact operands => error <= 0.5 ulp; tol = 4 eps |mean|.
//   variance: the final subtraction  X - Y,  X = sum(x^2), Y = n*avg^2 <= X, has conditioning
//             X/((W-1) var); tol = 16 eps X/(W-1).  First-order worst case of a straightforward
//             evaluation, u = eps/2: X carries 2u (conversion of the 64-bit sum of squares, division
//             by m^2), Y carries 4u (avg, avg*avg, product by n), the subtraction and the division by
//             W-1 one u each: <= (2u X + 4u Y + 2u X)/(W-1) <= 4 eps X/(W-1); the tolerance leaves a
//             factor 4 above that bound (DESIGN proposed 8 eps; observed ratios were then 0.26-0.31,
//             above the 0.25 calibration gate, hence 16).
// Neither tolerance grows with the length of the history: drift would show up.
#include <Eigen/Core>
#include <array>
#include <memory>
#include "romea_core_common/containers/Eigen/RingOfEigenVector.hpp"
#include "romea_core_common/monitoring/OnlineAverage.hpp"
#include "romea_core_common/monitoring/OnlineVariance.hpp"
#include "vh.hpp"

using romea::core::OnlineAverage;
using romea::core::OnlineVariance;
using romea::core::RingOfEigenVector;
typedef long double LD;
typedef __int128 I128;
typedef unsigned __int128 U128;

static const double EPS = std::numeric_limits<double>::epsilon();

// ---------------------------------------------------------------------------------------------
// precisions: the literal is what the library receives, m is the scale factor the statement
// implies (1/precision).  First nine = DESIGN's list, the others are further reciprocals of
// integers inside [1e-6, 1].
// ---------------------------------------------------------------------------------------------
struct Prec {double p; long long m;};
static const Prec PRECS[] = {
  {1.0, 1}, {0.5, 2}, {0.25, 4}, {0.1, 10}, {0.01, 100}, {1e-3, 1000}, {1e-4, 10000},
  {1e-5, 100000}, {1e-6, 1000000},
  {0.2, 5}, {0.125, 8}, {0.05, 20}, {0.002, 500}, {2e-5, 50000}, {5e-6, 200000}};
static const int N_MAIN_PREC = 9, N_PREC = 15;

static Prec pick_prec(vh::Rng & r)
{
  if (r.coin(0.8)) {return PRECS[r.range(0, N_MAIN_PREC - 1)];}
  return PRECS[r.range(N_MAIN_PREC, N_PREC - 1)];
}

// ---------------------------------------------------------------------------------------------
// exact trunc(x*m); returns false when the sample is outside the generated domain
// (|x*m| > 1e8) or when the truncation is ambiguous (within 1e-6 of a non-zero integer without
// being one).
// ---------------------------------------------------------------------------------------------
static bool exact_trunc(double x, long long m, long long & v)
{
  if (!std::isfinite(x)) {return false;}
  if (x == 0.0) {v = 0; return true;}
  int e;
  double fr = std::frexp(std::fabs(x), &e);          // |x| = fr * 2^e, fr in [0.5, 1)
  uint64_t mant = (uint64_t)std::ldexp(fr, 53);      // exact integer < 2^53
  int sh = e - 53;                                   // |x| = mant * 2^sh
  U128 prod = (U128)mant * (U128)m;                  // < 2^73, exact
  U128 q, rem = 0;
  int s = -sh;
  if (sh >= 0) {
    if (sh > 30) {return false;}
    q = prod << sh;
  } else if (s >= 120) {
    q = 0; rem = 1; s = 120;                         // tiny: |x*m| < 2^-40, fraction irrelevant
  } else {
    q = prod >> s;
    rem = prod - (q << s);
  }
  if (q > (U128)100000000ULL || (q == (U128)100000000ULL && rem != 0)) {return false;}
  if (rem != 0) {
    LD frac = (LD)rem / ldexpl(1.0L, s);             // in (0,1)
    bool near_up = (1.0L - frac) < 1e-6L;            // next integer (q+1) is never zero
    bool near_down = frac < 1e-6L && q != 0;
    if (near_up || near_down) {return false;}
  }
  long long a = (long long)q;
  v = x < 0 ? -a : a;
  return true;
}

// ---------------------------------------------------------------------------------------------
// sample generators
// ---------------------------------------------------------------------------------------------
struct ValueGen
{
  int mode;
  long long m;
  double A;        // amplitude bound for this history
  double centre;   // offset for the cancellation mode
  double spread;
  double constant;
  int v2m;         // 2-adic valuation of m
};

static ValueGen make_gen(vh::Rng & r, long long m)
{
  ValueGen g;
  g.m = m;
  g.mode = (int)r.range(0, 6);
  double top = 0.999e8 / (double)m;
  g.A = r.coin(0.25) ? top : r.logu(1.0 / (double)m, top);
  g.centre = r.sign() * top * r.uni(0.1, 0.98);
  g.spread = r.logu(1.0 / (double)m, top * 0.01);
  g.constant = r.uni(-g.A, g.A);
  g.v2m = 0;
  for (long long t = m; t % 2 == 0; t /= 2) {++g.v2m;}
  return g;
}

static double raw_sample(vh::Rng & r, const ValueGen & g)
{
  int mode = g.mode;
  if (mode == 6) {mode = (int)r.range(0, 5);}       // mixed history
  switch (mode) {
    case 0: {   // dyadic: x*m exact integer, or a multiple of 2^-k (k <= 12) away from one
        int s = (int)r.range(0, g.v2m + (r.coin(0.3) ? 12 : 0));
        double lim = std::min(g.A, 4.0e15 / (double)g.m) * std::ldexp(1.0, s);
        long long j = (long long)(r.uni(-1, 1) * std::min(lim, 9.0e15));
        if (r.coin(0.3)) {j = r.range(-8, 8);}
        return std::ldexp((double)j, -s);
      }
    case 1: return r.uni(-g.A, g.A);
    case 2: return g.centre + r.uni(-g.spread, g.spread);        // large offset, small spread
    case 3: {   // extremes of the domain, zeros, denormals
        switch ((int)r.range(0, 6)) {
          case 0: return 0.0;
          case 1: return -0.0;
          case 2: return r.sign() * 0.999e8 / (double)g.m;
          case 3: return r.sign() * 1.0e8 / (double)g.m;        // accepted only when exact
          case 4: return r.sign() * r.logu(1e-310, 1e-12);
          case 5: return r.sign() * (double)r.range(0, 100000000) / (double)g.m;
          default: return r.sign() * r.uni(0.0, 1.0) / (double)g.m;   // |x*m| < 1: truncates to 0
        }
      }
    case 4: return g.constant;
    default: return g.centre * 1e-3 + g.spread * r.normal();
  }
}

// draws until the truncation of the sample is unambiguous; v = exact trunc(x*m)
static uint64_t g_samples = 0, g_redraws = 0, g_fallbacks = 0;
static double sample(vh::Rng & r, const ValueGen & g, long long & v)
{
  ++g_samples;
  for (int i = 0; i < 200; ++i) {
    double x = raw_sample(r, g);
    if (exact_trunc(x, g.m, v)) {return x;}
    ++g_redraws;
  }
  ++g_fallbacks;
  v = 0;
  return 0.0;
}

// ---------------------------------------------------------------------------------------------
// histories
// ---------------------------------------------------------------------------------------------
struct Op {bool reset; double x; long long v;};

struct ResetPlan
{
  int mode;            // 0 none, 1 bernoulli, 2 targeted phase of the window, 3 bursts
  double q;
  long long target;
  int W;
  void init(vh::Rng & r, int w)
  {
    W = w;
    mode = (int)r.range(0, 3);
    q = 1.0 / ((double)w * r.uni(0.5, 4.0));
    next_target(r);
  }
  void next_target(vh::Rng & r)
  {
    switch ((int)r.range(0, 8)) {
      case 0: target = 0; break;
      case 1: target = 1; break;
      case 2: target = W - 1; break;
      case 3: target = W; break;
      case 4: target = W + 1; break;
      case 5: target = 2 * W - 1; break;
      case 6: target = 2 * W; break;
      case 7: target = 2 * W + 1; break;
      default: target = r.range(0, 3 * W); break;
    }
  }
  // decides whether the next operation is a reset, given the number of items since the last one
  bool fire(vh::Rng & r, long long n_since, bool last_was_reset)
  {
    switch (mode) {
      case 0: return false;
      case 1: return r.coin(q);
      case 2:
        if (n_since == target && !(last_was_reset && target == 0)) {next_target(r); return true;}
        if (n_since > target) {next_target(r);}
        return false;
      default:
        if (last_was_reset) {return r.coin(0.5);}
        return r.coin(q);
    }
  }
};

static std::string ops_json(const std::vector<Op> & ops, size_t upto, size_t from = 0)
{
  std::string o = "[";
  for (size_t i = from; i <= upto && i < ops.size(); ++i) {
    if (i > from) {o += ",";}
    o += ops[i].reset ? std::string("\"reset\"") : vh::jnum(ops[i].x);
  }
  return o + "]";
}

struct HistoryFacts {bool wrapped = false; bool reset_then_update = false; bool reset_mid_window = false;
  int resets = 0; int updates = 0;
  // ring only: appends whose argument aliases the ring's own state
  int alias_appends = 0; bool alias_perm_of_evicted = false;
  int reconfigured = 0; int copies = 0; int self_set = 0; int sibling_bursts = 0; int own_getter_appends = 0; int rvalue_appends = 0;
  int ref_checks = 0; bool extreme_items = false;};

// ---------------------------------------------------------------------------------------------
// statistics: drive one object through one history, checking after every operation.
// returns false after the first violation (the rest of the history is then not informative).
// ---------------------------------------------------------------------------------------------
struct StatCfg {bool variance; int W; Prec prec; bool via_set_window; const char * cat; size_t observe_from = 0;
  bool allow_reconfigure = true;};

static uint64_t dbits(double d) {uint64_t u; std::memcpy(&u, &d, 8); return u;}

// What one object shows at the public API (bit patterns, so that NaN == NaN).
struct Shown {bool avail; uint64_t avg; uint64_t var; size_t wsize;
  bool operator==(const Shown & o) const {return avail == o.avail && avg == o.avg && var == o.var && wsize == o.wsize;}};
static Shown show(const OnlineAverage & o, const OnlineVariance * v)
{
  return Shown{o.isAvailable(), dbits(o.getAverage()), v ? dbits(v->getVariance()) : 0, o.getWindowSize()};
}

// a throw-away object of either class, fed a few samples (used as sibling, as discarded copy, as clobbered source)
// (values stay inside the stated domain |x|/precision <= 1e8 of that object: amp = 1e7 * precision)
static void abuse(OnlineAverage & o, vh::Rng & rs, int nops, double amp)
{
  for (int t = 0; t < nops; ++t) {
    if (rs.coin(0.2)) {o.reset();} else {o.update(rs.uni(-amp, amp));}
  }
}

// Besides the plain history the run exercises, from its own random stream `rs` (wave-3 lessons):
//   value categories   update() called with the stored lvalue, a prvalue, an xvalue, a local that is clobbered afterwards
//   argument aliasing  setWindowSize(getWindowSize()) in the middle of the history (reference to the object's own member)
//   value semantics    copy-construction (also from an rvalue: the class has no move constructor, the copy constructor
//                      is selected) in the middle of the history; either the copy replaces the original (the original is
//                      then fed other data, reset and destroyed) or the copy is fed other data and destroyed; the object
//                      that continues must keep matching the reference model
//   interference       a sibling object of the same family, with another window and precision, is driven between
//                      mutation and observation; a temporary third object is created and destroyed
//   re-configuration   setWindowSize(W') with another W' while the window is empty (before the first sample, right
//                      after a reset, or immediately before a reset): from then on the object must behave as one of
//                      window W'.  Re-configuration while samples are in the window is NOT generated: the statement
//                      does not say which samples the new window should then hold.
//   result stability   the reference returned by getWindowSize() is bound once and re-read; at the end everything shown
//                      is read, siblings are driven, and it is read again: must be bit-identical
static bool run_stats(vh::Ctx & c, vh::Rng & rs, const StatCfg & s, const std::vector<Op> & ops, HistoryFacts & hf)
{
  auto make = [&s]() -> OnlineAverage * {
      if (s.variance) {
        return s.via_set_window ? new OnlineVariance(s.prec.p) : new OnlineVariance(double(s.prec.p), (size_t)s.W);
      }
      return s.via_set_window ? new OnlineAverage(double(s.prec.p)) : new OnlineAverage(s.prec.p, (size_t)s.W);
    };
  std::unique_ptr<OnlineAverage> obj(make());
  OnlineVariance * var = s.variance ? static_cast<OnlineVariance *>(obj.get()) : nullptr;
  if (s.via_set_window) {obj->setWindowSize((size_t)s.W);}
  const size_t * wref = &obj->getWindowSize();      // reference returned by the getter, kept

  // sibling of the other class, other window, other precision
  std::unique_ptr<OnlineAverage> sib;
  double sib_amp;
  const double own_amp = 1e7 / (double)s.prec.m;
  {
    Prec sp = PRECS[rs.range(0, N_PREC - 1)];
    sib_amp = 1e7 / (double)sp.m;
    size_t sw = (size_t)rs.range(2, 9);
    if (s.variance) {sib.reset(new OnlineAverage(sp.p, sw));} else {sib.reset(new OnlineVariance(sp.p, sw));}
  }
  const bool extras = !ops.empty();
  const size_t copy_at = (extras && rs.coin(0.3)) ? (size_t)rs.range((int64_t)s.observe_from, (int64_t)ops.size() - 1) :
    (size_t)-1;

  std::vector<long long> hist;     // truncated samples since the last reset (reference state)
  const long long m = s.prec.m;
  int W = s.W;                     // current window size (changes with a re-configuration)
  bool had_reset_after_data = false;
  auto new_window = [&]() {
      int lo = s.variance ? 2 : 1;
      int nw = rs.coin(0.5) ? (int)rs.range(lo, 8) : (int)rs.range(lo, 64);
      if (nw != W) {++hf.reconfigured;}
      return nw;
    };

  struct Frame
  {
    const StatCfg & s; const std::vector<Op> & ops; const HistoryFacts & hf; size_t i; long long n;
    bool avail; double got; LD expected; LD sumsq; const char * note; int W;
    vh::Params params() const
    {
      return vh::Params{{"W", (double)W}, {"W_initial", (double)s.W}, {"precision", s.prec.p}, {"multiplier", (double)s.prec.m},
        {"variance_object", s.variance ? 1.0 : 0.0}, {"n_since_reset", (double)n},
        {"resets", (double)hf.resets}, {"n_over_W", (double)(n - W)}, {"reconfigured", (double)hf.reconfigured},
        {"via_setWindowSize", s.via_set_window ? 1.0 : 0.0}, {"op_index", (double)i},
        {"copies", (double)hf.copies}, {"self_setWindowSize", (double)hf.self_set}};
    }
    std::string wit() const
    {
      size_t from = i > 700 ? i - 700 : 0;       // long histories: the tail is what matters
      return vh::J().s("cat", s.cat).s("class", s.variance ? "OnlineVariance" : "OnlineAverage")
             .f("W_initial", s.W).f("W_now", W).f("window_changes_before", hf.reconfigured)
             .f("precision", s.prec.p).f("multiplier", (int64_t)s.prec.m)
             .boolean("via_setWindowSize", s.via_set_window).f("failing_op", (uint64_t)i)
             .f("copies_before", hf.copies).f("self_setWindowSize_before", hf.self_set).s("note", note)
             .f("ops_shown_from", (uint64_t)from).raw("ops", ops_json(ops, i, from)).str();
    }
  } F{s, ops, hf, 0, 0, false, 0.0, 0.0L, 0.0L, "", s.W};
  auto params = [&F]() {return F.params();};

  for (size_t i = 0; i < ops.size(); ++i) {
    const bool observe = i >= s.observe_from;
    if (ops[i].reset) {
      if (!hist.empty()) {
        had_reset_after_data = true;
        if (hist.size() % (size_t)W != 0) {hf.reset_mid_window = true;}
      }
      hist.clear();
      if (observe && s.allow_reconfigure && rs.coin(0.08)) {      // new window size immediately before the reset
        W = new_window();
        obj->setWindowSize((size_t)W);
      }
      obj->reset();
      ++hf.resets;
    } else {
      hist.push_back(ops[i].v);
      switch (observe ? (int)rs.range(0, 5) : 0) {
        case 1: obj->update(double(ops[i].x)); break;                         // prvalue
        case 2: {double t = ops[i].x; obj->update(std::move(t)); break;}      // xvalue
        case 3: {double t = ops[i].x; obj->update(t); t = -7.25e7; (void)t; break;}   // local, clobbered afterwards
        default: obj->update(ops[i].x); break;
      }
      ++hf.updates;
      if (had_reset_after_data) {hf.reset_then_update = true;}
      if ((long long)hist.size() > W) {hf.wrapped = true;}
    }
    if (!observe) {continue;}
    if (rs.coin(0.03)) {obj->setWindowSize(obj->getWindowSize()); ++hf.self_set;}     // same size, own member by reference
    if (hist.empty() && s.allow_reconfigure && rs.coin(0.12)) {   // new window size while the window is empty
      W = new_window();
      if (rs.coin()) {obj->setWindowSize((size_t)W);} else {const size_t nw = (size_t)W; obj->setWindowSize(nw);}
    }
    F.W = W;
    if (rs.coin(0.1)) {abuse(*sib, rs, (int)rs.range(1, 3), sib_amp); ++hf.sibling_bursts;}
    const long long n = (long long)hist.size();
    const long long cnt = std::min<long long>(n, W);
    F.i = i; F.n = n; F.note = "";
    const bool after_copy = hf.copies > 0;
    // --- availability: exactly when W samples have arrived since the last reset
    F.avail = obj->isAvailable();
    if (!c.expect("availability.iff_window_full", F.avail == (n >= W),
      after_copy ? "availability_mismatch_after_copy" : "availability_mismatch", params,
      [&F]() {return vh::J().raw("case", F.wit()).boolean("isAvailable", F.avail).f("n", (int64_t)F.n).str();}))
    {
      return false;
    }
    if (n > 0) {       // mean of zero samples: nothing stated
      // --- average
      I128 S = 0, Q = 0;
      for (long long k = n - cnt; k < n; ++k) {S += hist[(size_t)k]; Q += (I128)hist[(size_t)k] * hist[(size_t)k];}
      LD mean = (LD)S / ((LD)m * (LD)cnt);
      F.got = obj->getAverage();
      F.expected = mean;
      LD err = fabsl((LD)F.got - mean);
      if (!c.expect_le("average.vs_exact_mean", err, 4 * (LD)EPS * fabsl(mean),
        after_copy ? "average_mismatch_after_copy" : "average_mismatch", params,
        [&F]() {return vh::J().raw("case", F.wit()).f("got", F.got).f("expected", F.expected).f("n", (int64_t)F.n).str();}))
      {
        return false;
      }
      // --- variance, once the window is full
      if (var != nullptr && n >= W) {
        I128 num = (I128)W * Q - S * S;                 // >= 0 (Cauchy-Schwarz), exact
        LD den = (LD)W * (LD)(W - 1) * (LD)m * (LD)m;
        LD expv = (LD)num / den;
        LD sumsq = (LD)Q / ((LD)m * (LD)m);
        F.got = var->getVariance();
        F.expected = expv;
        F.sumsq = sumsq;
        LD verr = fabsl((LD)F.got - expv);
        if (!c.expect_le("variance.vs_exact_unbiased", verr, 16 * (LD)EPS * sumsq / (LD)(W - 1),
          after_copy ? "variance_mismatch_after_copy" : "variance_mismatch", params,
          [&F]() {return vh::J().raw("case", F.wit()).f("got", F.got).f("expected", F.expected).f("sum_x2", F.sumsq).str();}))
        {
          return false;
        }
      }
    }
    // --- value semantics: copy in the middle of the history
    if (i == copy_at) {
      const int how = (int)rs.range(0, 3);
      Shown before = show(*obj, var);
      OnlineAverage * cp;
      if (how == 3) {          // from an rvalue (resolves to the copy constructor)
        cp = var ? static_cast<OnlineAverage *>(new OnlineVariance(std::move(*var))) : new OnlineAverage(std::move(*obj));
      } else {
        cp = var ? static_cast<OnlineAverage *>(new OnlineVariance(*var)) : new OnlineAverage(*obj);
      }
      std::unique_ptr<OnlineAverage> copy(cp);
      OnlineVariance * cvar = var ? static_cast<OnlineVariance *>(cp) : nullptr;
      ++hf.copies;
      Shown of_copy = show(*copy, cvar), of_src = show(*obj, var);
      F.note = "immediately after copy-construction: the copy and the source must show what the source showed";
      if (!c.expect("copy.shows_same_as_source", of_copy == before && of_src == before, "copy_differs_from_source",
        params, [&F]() {return F.wit();}))
      {
        return false;
      }
      if (how == 0) {               // the copy is used for something else and dropped; the source goes on
        abuse(*copy, rs, (int)rs.range(1, 2 * W + 2), own_amp);
        copy.reset();
        c.cat("stats_copy_discarded_source_continues");
      } else {                      // the copy goes on; the source is used for something else, then destroyed
        if (*wref != (size_t)W) {
          F.note = "reference returned by getWindowSize() no longer reads W";
          c.expect("stability.shown_state", false, "observation_unstable", params, [&F]() {return F.wit();});
          return false;
        }
        std::swap(obj, copy);
        var = cvar;
        wref = &obj->getWindowSize();
        abuse(*copy, rs, (int)rs.range(1, 2 * W + 2), own_amp);
        copy->reset();
        copy.reset();
        c.cat(how == 3 ? "stats_copy_from_rvalue_continues_source_destroyed" : "stats_copy_continues_source_destroyed");
      }
      F.note = "after the other object of the copy pair was driven and destroyed";
      if (!c.expect("copy.independent_of_other_object", show(*obj, var) == before, "copy_not_independent",
        params, [&F]() {return F.wit();}))
      {
        return false;
      }
    }
  }
  // --- result stability / interference at the end of the case
  {
    F.i = ops.empty() ? 0 : ops.size() - 1; F.n = (long long)hist.size();
    Shown first = show(*obj, var);
    size_t w_by_ref = *wref;
    abuse(*sib, rs, 6, sib_amp);
    {
      std::unique_ptr<OnlineAverage> third(make());
      if (s.via_set_window) {third->setWindowSize((size_t)W);}
      abuse(*third, rs, 4, own_amp);
    }
    Shown again = show(*obj, var);
    F.note = "end of case: state shown twice with sibling objects driven / created / destroyed in between";
    if (!c.expect("stability.shown_state", first == again && w_by_ref == (size_t)W && *wref == (size_t)W,
      "observation_unstable", params, [&F]() {return F.wit();}))
    {
      return false;
    }
  }
  return true;
}

static std::vector<Op> gen_stat_history(vh::Rng & r, int W, const ValueGen & g, int & plan_mode)
{
  long long L = r.range(0, 10 * W);
  ResetPlan plan;
  plan.init(r, W);
  plan_mode = plan.mode;
  std::vector<Op> ops;
  ops.reserve((size_t)L);
  long long n_since = 0;
  bool last_reset = false;
  for (long long i = 0; i < L; ++i) {
    if (plan.fire(r, n_since, last_reset)) {
      ops.push_back({true, 0.0, 0});
      n_since = 0; last_reset = true;
    } else {
      Op o; o.reset = false; o.x = sample(r, g, o.v);
      ops.push_back(o);
      ++n_since; last_reset = false;
    }
  }
  return ops;
}

static void note_facts(vh::Ctx & c, const HistoryFacts & hf, const char * prefix)
{
  std::string p(prefix);
  if (hf.wrapped) {c.cat(p + "_history_wrapped");}
  if (hf.reset_then_update) {c.cat(p + "_history_reset_then_data");}
  if (hf.reset_mid_window) {c.cat(p + "_history_reset_mid_window");}
  if (hf.alias_appends > 0) {
    c.cat(p + "_append_aliasing_own_entry");
    c.count(p + "_alias_appends", (uint64_t)hf.alias_appends);
  }
  if (hf.alias_perm_of_evicted) {c.cat(p + "_append_permuting_expr_of_evicted_entry");}
  if (hf.copies > 0) {c.cat(p + "_copied_or_assigned_mid_history"); c.count(p + "_copy_events", (uint64_t)hf.copies);}
  if (hf.self_set > 0) {c.cat(p + "_setWindowSize_with_own_getter_reference");}
  if (hf.reconfigured > 0) {c.cat(p + "_window_resized_while_empty"); c.count(p + "_window_resizes", (uint64_t)hf.reconfigured);}
  if (hf.sibling_bursts > 0) {c.cat(p + "_sibling_object_interleaved");}
  if (hf.own_getter_appends > 0) {c.cat(p + "_append_reference_from_own_get");}
  if (hf.rvalue_appends > 0) {c.cat(p + "_append_rvalue");}
  if (hf.ref_checks > 0) {c.cat(p + "_references_kept_and_reread"); c.count(p + "_reference_rereads", (uint64_t)hf.ref_checks);}
  if (hf.extreme_items) {c.cat(p + "_items_extreme_inf_nan_denormal");}
  c.count(p + "_updates", (uint64_t)hf.updates);
  c.count(p + "_resets", (uint64_t)hf.resets);
}

// ---------------------------------------------------------------------------------------------
// ring buffer
// ---------------------------------------------------------------------------------------------
// Arguments that alias the object's own state: about a third of the appends on a non-empty ring
// pass ring[k] itself (by reference) or an UNEVALUATED Eigen expression of existing entries
// (reverse, cyclic shift, negation, sum, scaling), k being the oldest entry -- the one a full
// ring evicts -- 45 % of the time.  The appended item is the value of the argument at the call:
// the reference model evaluates the same expression on its own copy of the entries before the append.
struct AliasRec {int kind; int k; int j;};
static const char * const ALIAS_NAME[] = {"append", "append:ring[k]", "append:ring[k].reverse()", "append:-ring[k]",
  "append:ring[k]+ring[j]", "append:2*ring[k]", "append:ring[k].reverse()+ring[j]", "append:ring[k](cyclic shift)",
  "append:ring.get()[slot k]", "append:const ring.get().back()", "append(temporary)", "append(std::move(local))"};

// Further lessons applied to the ring (all decisions from the stream `ra`):
//   own getters     ring.append(ring.get()[slot]) / the const get().back(): reference from the object's own accessor
//   value category  append(V(v)) and append(std::move(local))
//   value semantics in the middle of the history the ring is copy-constructed, copy-assigned over a ring of another
//                   capacity and content, move-constructed, move-assigned, or assigned to itself; the source is then
//                   cleared / refilled / destroyed and the history continues on the copy (or the copy is abused and
//                   dropped and the history continues on the source)
//   interference    a sibling ring of another capacity is appended to / cleared between mutation and observation
//   stability       references bound to ring[0] and ring[size-1] are re-read after const calls and sibling activity
//   accessors       get() const and non-const: same size as size(), every ring[k] lives inside get()'s storage
//   magnitudes      items with +-max, +-min, denormals, signed zeros, +-inf and NaN components (bit-exact comparison)
//   instantiations  Vector2d/3d/4d/6d, Vector2f/3f/4f, Vector3i, VectorXd (dynamic, 5 rows)
template<class V> static bool same_bits(const V & a, const V & b)
{
  if (a.size() != b.size()) {return false;}
  for (Eigen::Index d = 0; d < a.size(); ++d) {
    if (std::memcmp(&a.coeffRef(d), &b.coeffRef(d), sizeof(typename V::Scalar)) != 0) {return false;}
  }
  return true;
}
template<class V> static V new_vec()
{
  if constexpr (V::RowsAtCompileTime == Eigen::Dynamic) {return V(5);} else {return V();}
}
template<class Sc> static Sc extreme_scalar(vh::Rng & ra)
{
  typedef std::numeric_limits<Sc> L;
  if (L::is_integer) {
    switch ((int)ra.range(0, 3)) {case 0: return L::max(); case 1: return L::min(); case 2: return Sc(0); default: return Sc(-1);}
  }
  switch ((int)ra.range(0, 9)) {
    case 0: return L::max(); case 1: return L::lowest(); case 2: return L::min(); case 3: return L::denorm_min();
    case 4: return Sc(0); case 5: return -Sc(0); case 6: return L::infinity(); case 7: return -L::infinity();
    case 8: return L::quiet_NaN(); default: return -L::denorm_min();
  }
}

template<class V>
static bool run_ring(vh::Ctx & c, vh::Rng & ra, int cap, const std::vector<Op> & ops, const char * cat,
  const char * tname, HistoryFacts & hf, size_t observe_from)
{
  typedef typename V::Scalar Sc;
  typedef RingOfEigenVector<V> Ring;
  const bool is_int = std::numeric_limits<Sc>::is_integer;
  const double arith_limit = is_int ? 5e8 : 1e30;
  const int N = (int)new_vec<V>().size();
  Eigen::ArrayXi shift(N);
  for (int d = 0; d < N; ++d) {shift(d) = (d + 1) % N;}
  std::vector<AliasRec> recs(ops.size(), AliasRec{0, 0, 0});
  std::unique_ptr<Ring> ringp(new Ring((size_t)cap));
  const int sib_cap = (int)ra.range(1, 9);
  Ring sib((size_t)sib_cap);
  auto sib_activity = [&]() {
      if (ra.coin(0.15)) {sib.clear();}
      V t = new_vec<V>();
      for (int d = 0; d < N; ++d) {t(d) = (Sc)(-3 - d);}
      sib.append(t);
      if (sib.size() > 0) {(void)sib[sib.size() - 1];}
    };
  const bool extreme = ra.coin(0.1);
  if (extreme) {hf.extreme_items = true;}
  const size_t copy_at = (!ops.empty() && ra.coin(0.3)) ?
    (size_t)ra.range((int64_t)observe_from, (int64_t)ops.size() - 1) : (size_t)-1;
  std::vector<V, Eigen::aligned_allocator<V>> hist;     // everything appended since the last clear
  bool had_clear_after_data = false;
  int serial = 0;
  bool pow2 = (cap & (cap - 1)) == 0;

  struct Frame
  {
    const std::vector<Op> & ops; const std::vector<AliasRec> & recs; const HistoryFacts & hf;
    const std::unique_ptr<Ring> & ringp;
    const std::vector<V, Eigen::aligned_allocator<V>> & hist;
    const char * cat; const char * tname; int cap; bool pow2; size_t i; long long n; long long kbad; size_t sz;
    const char * note;
    vh::Params params() const
    {
      return vh::Params{{"capacity", (double)cap}, {"capacity_is_pow2", pow2 ? 1.0 : 0.0},
        {"n_since_clear", (double)n}, {"clears", (double)hf.resets}, {"k", (double)kbad},
        {"n_over_capacity", (double)(n - cap)}, {"op_index", (double)i},
        {"alias_kind_of_failing_op", (double)recs[i].kind}, {"alias_appends", (double)hf.alias_appends},
        {"copies", (double)hf.copies}};
    }
    std::string wit() const
    {
      size_t from = i > 200 ? i - 200 : 0;
      std::string o = "[";
      for (size_t j = from; j <= i; ++j) {
        if (j > from) {o += ",";}
        if (ops[j].reset) {o += "\"clear\""; continue;}
        o += "\"" + std::string(ALIAS_NAME[recs[j].kind]);
        if (recs[j].kind >= 1 && recs[j].kind <= 8) {o += " k=" + std::to_string(recs[j].k) + " j=" + std::to_string(recs[j].j);}
        o += "\"";
      }
      o += "]";
      return vh::J().s("cat", cat).s("element", tname).f("capacity", cap).f("failing_op", (uint64_t)i)
             .f("copies_before", hf.copies).s("note", note).f("ops_shown_from", (uint64_t)from).raw("ops", o).str();
    }
  } F{ops, recs, hf, ringp, hist, cat, tname, cap, pow2, 0, 0, -1, 0, ""};
  auto params = [&F]() {return F.params();};

  // compares the whole ring with the model; fills F.kbad
  auto entries_ok = [&](const Ring & rg, long long n) {
      const long long es = std::min<long long>(n, cap);
      for (long long k = 0; k < es; ++k) {
        if (!same_bits(rg[(size_t)k], hist[(size_t)(n - 1 - k)])) {F.kbad = k; return false;}
      }
      return true;
    };
  auto entry_witness = [&F]() {
      const V & got = (*F.ringp)[(size_t)F.kbad];
      const V & exp = F.hist[(size_t)(F.n - 1 - F.kbad)];
      return vh::J().raw("case", F.wit()).f("k", (int64_t)F.kbad).raw("got", vh::jvec(got))
             .raw("expected", vh::jvec(exp)).f("got_first_component", (double)got(0))
             .f("expected_first_component", (double)exp(0)).str();
    };

  for (size_t i = 0; i < ops.size(); ++i) {
    Ring & ring = *ringp;
    const bool observe = i >= observe_from;
    if (ops[i].reset) {
      if (!hist.empty()) {
        had_clear_after_data = true;
        if (hist.size() % (size_t)cap != 0) {hf.reset_mid_window = true;}
      }
      hist.clear();
      ring.clear();
      ++hf.resets;
    } else {
      V v = new_vec<V>();
      ++serial;
      for (int d = 0; d < N; ++d) {
        v(d) = (Sc)(d == 0 ? (double)serial : ops[i].x + d);
      }
      if (extreme && ra.coin(0.5)) {
        for (int d = 0; d < N; ++d) {if (ra.coin(0.6)) {v(d) = extreme_scalar<Sc>(ra);}}
      }
      AliasRec ar{0, 0, 0};
      const long long sz0 = std::min<long long>((long long)hist.size(), cap);
      if (observe && sz0 > 0 && ra.coin(0.35)) {
        ar.kind = (int)ra.range(1, 9);
        ar.k = ra.coin(0.45) ? (int)(sz0 - 1) : (int)ra.range(0, sz0 - 1);
        ar.j = (int)ra.range(0, sz0 - 1);
        const V mk = hist[hist.size() - 1 - (size_t)ar.k], mj = hist[hist.size() - 1 - (size_t)ar.j];   // model copies
        // arithmetic on the entries only while it cannot overflow / produce NaN (repeated doubling and summing)
        const bool arith_ok = mk.template cast<double>().allFinite() && mj.template cast<double>().allFinite() &&
          mk.template cast<double>().cwiseAbs().maxCoeff() < arith_limit &&
          mj.template cast<double>().cwiseAbs().maxCoeff() < arith_limit;
        V e = new_vec<V>();
        bool usable = true;
        switch (ar.kind) {
          case 1: e = mk; break;
          case 2: e = mk.reverse(); break;
          case 3: if (arith_ok) {e = -mk;} else {usable = false;} break;
          case 4: if (arith_ok) {e = mk + mj;} else {usable = false;} break;
          case 5: if (arith_ok) {e = Sc(2) * mk;} else {usable = false;} break;
          case 6: if (arith_ok) {e = mk.reverse() + mj;} else {usable = false;} break;
          case 7: for (int d = 0; d < N; ++d) {e(d) = mk((d + 1) % N);} break;
          case 8:   // raw storage slot through the non-const accessor: the value is whatever is there at the call
            ar.k = (int)ra.range(0, (int64_t)ring.get().size() - 1);
            e = ring.get()[(size_t)ar.k];
            break;
          default: e = static_cast<const Ring &>(ring).get().back(); break;
        }
        if (usable) {v = e;} else {ar.kind = 0;}
      } else if (observe && ra.coin(0.3)) {
        ar.kind = ra.coin() ? 10 : 11;
      }
      recs[i] = ar;
      const size_t k = (size_t)ar.k, j = (size_t)ar.j;
      switch (ar.kind) {
        case 0: ring.append(v); break;
        case 1: ring.append(ring[k]); break;
        case 2: ring.append(ring[k].reverse()); break;
        case 3: ring.append(-ring[k]); break;
        case 4: ring.append(ring[k] + ring[j]); break;
        case 5: ring.append(Sc(2) * ring[k]); break;
        case 6: ring.append(ring[k].reverse() + ring[j]); break;
        case 7: ring.append(ring[k](shift)); break;
        case 8: ring.append(ring.get()[k]); break;
        case 9: ring.append(static_cast<const Ring &>(ring).get().back()); break;
        case 10: ring.append(V(v)); break;
        default: {V t = v; ring.append(std::move(t)); break;}
      }
      if (ar.kind >= 1 && ar.kind <= 9) {
        ++hf.alias_appends;
        if (ar.kind >= 8) {++hf.own_getter_appends;}
        if ((ar.kind == 2 || ar.kind == 6 || ar.kind == 7) && sz0 == cap && ar.k == (int)(sz0 - 1) && N > 1) {
          hf.alias_perm_of_evicted = true;
        }
      } else if (ar.kind >= 10) {
        ++hf.rvalue_appends;
      }
      hist.push_back(v);
      ++hf.updates;
      if (had_clear_after_data) {hf.reset_then_update = true;}
      if ((int)hist.size() > cap) {hf.wrapped = true;}
    }
    if (!observe) {continue;}
    if (ra.coin(0.1)) {sib_activity(); ++hf.sibling_bursts;}
    const long long n = (long long)hist.size();
    const long long expect_size = std::min<long long>(n, cap);
    const bool after_copy = hf.copies > 0;
    F.i = i; F.n = n; F.kbad = -1; F.sz = ring.size(); F.note = "";
    if (!c.expect("ring.size_is_min_n_capacity", (long long)F.sz == expect_size,
      after_copy ? "ring_size_mismatch_after_copy" : "ring_size_mismatch", params,
      [&F]() {
        return vh::J().raw("case", F.wit()).f("size", (uint64_t)F.sz)
               .f("expected", (int64_t)std::min<long long>(F.n, F.cap)).str();
      }))
    {
      return false;
    }
    if (expect_size > 0) {
      bool ok = entries_ok(ring, n);
      if (!c.expect("ring.kth_most_recent", ok, after_copy ? "ring_entry_mismatch_after_copy" : "ring_entry_mismatch",
        params, entry_witness))
      {
        return false;
      }
    }
    // --- accessors: get() const / non-const agree with size(); entries live inside get()'s storage
    {
      const Ring & cr = ring;
      bool acc = ring.get().size() == F.sz && cr.get().size() == F.sz && &ring.get() == &cr.get();
      if (F.sz > 0) {
        const V * lo = cr.get().data(), * hi = lo + F.sz;
        const V * p0 = &cr[0], * pl = &cr[F.sz - 1];
        acc = acc && p0 >= lo && p0 < hi && pl >= lo && pl < hi;
      }
      F.note = "get() const / non-const vs size() and operator[]";
      if (!c.expect("ring.accessors_consistent", acc, "ring_accessor_mismatch", params, [&F]() {return F.wit();})) {
        return false;
      }
    }
    // --- result stability: references kept across const calls and sibling activity
    if (F.sz > 0 && ra.coin(0.2)) {
      const Ring & cr = ring;
      const V & newest = cr[0];
      const V & oldest = cr[F.sz - 1];
      size_t kk = (size_t)ra.range(0, (int64_t)F.sz - 1);
      (void)cr.size(); (void)cr.get(); (void)cr[kk]; (void)ring.get();
      sib_activity();
      {Ring tmp((size_t)cap); tmp.append(hist.back()); tmp.clear();}
      bool st = same_bits(newest, hist[(size_t)(n - 1)]) && same_bits(oldest, hist[(size_t)(n - expect_size)]) &&
        &newest == &cr[0] && &oldest == &cr[F.sz - 1];
      ++hf.ref_checks;
      F.note = "references to ring[0] / ring[size-1] re-read after const calls, sibling-ring activity, a temporary ring";
      if (!c.expect("ring.references_stable", st, "ring_reference_unstable", params, [&F]() {return F.wit();})) {
        return false;
      }
    }
    // --- value semantics in the middle of the history
    if (i == copy_at) {
      const int how = (int)ra.range(0, 6);
      ++hf.copies;
      auto junk = [&](Ring & g, int cnt) {
          for (int t = 0; t < cnt; ++t) {
            if (ra.coin(0.2)) {g.clear();}
            V q = new_vec<V>();
            for (int d = 0; d < N; ++d) {q(d) = (Sc)(-100 - t - d);}
            g.append(q);
          }
        };
      switch (how) {
        case 0: {   // copy-construct, continue on the copy, the source is refilled and destroyed
            std::unique_ptr<Ring> cp(new Ring(*ringp));
            std::swap(cp, ringp); junk(*cp, cap + 2); cp.reset();
            c.cat("ring_copy_constructed_continues"); break;
          }
        case 1: {   // copy-assign over a ring of another capacity holding other items
            std::unique_ptr<Ring> cp(new Ring((size_t)ra.range(1, 20)));
            junk(*cp, (int)ra.range(0, 24));
            *cp = *ringp;
            std::swap(cp, ringp); junk(*cp, cap + 2); cp.reset();
            c.cat("ring_copy_assigned_continues"); break;
          }
        case 2: {   // move-construct, the source is destroyed
            std::unique_ptr<Ring> cp(new Ring(std::move(*ringp)));
            std::swap(cp, ringp); cp.reset();
            c.cat("ring_move_constructed_continues"); break;
          }
        case 3: {   // move-assign over a used ring; the source is overwritten with a fresh ring, used, destroyed
            std::unique_ptr<Ring> cp(new Ring((size_t)ra.range(1, 20)));
            junk(*cp, (int)ra.range(0, 24));
            *cp = std::move(*ringp);
            std::swap(cp, ringp); *cp = Ring((size_t)3); junk(*cp, 5); cp.reset();
            c.cat("ring_move_assigned_continues"); break;
          }
        case 4: {   // self-assignment
            Ring & alias = *ringp;
            *ringp = alias;
            c.cat("ring_self_assigned"); break;
          }
        default: {  // the copy is used for something else and dropped; the source goes on
            std::unique_ptr<Ring> cp(how == 5 ? new Ring(*ringp) : new Ring((size_t)1));
            if (how == 6) {*cp = *ringp;}
            junk(*cp, cap + 2); cp.reset();
            c.cat("ring_copy_discarded_source_continues"); break;
          }
      }
      F.sz = ringp->size(); F.kbad = -1;
      F.note = "immediately after copy / move / assignment (the other ring of the pair refilled and destroyed)";
      bool same = (long long)F.sz == expect_size && entries_ok(*ringp, n);
      if (!c.expect("ring.copy_holds_same_items", same, "ring_copy_differs", params, [&F]() {return F.wit();})) {
        return false;
      }
    }
  }
  // --- end of case: everything re-read after sibling activity
  if (!hist.empty() || !ops.empty()) {
    const long long n = (long long)hist.size();
    F.i = ops.empty() ? 0 : ops.size() - 1; F.n = n; F.kbad = -1;
    sib_activity(); sib_activity();
    F.sz = ringp->size();
    F.note = "end of case: ring re-read after sibling-ring activity";
    bool same = (long long)F.sz == std::min<long long>(n, cap) && entries_ok(*ringp, n);
    if (!c.expect("ring.references_stable", same, "ring_reference_unstable", params, [&F]() {return F.wit();})) {
      return false;
    }
  }
  return true;
}

static const int N_RING_TYPES = 9;
static bool run_ring_typed(vh::Ctx & c, vh::Rng & ra, int type, int cap, const std::vector<Op> & ops,
  const char * cat, HistoryFacts & hf, size_t observe_from = 0)
{
  switch (type) {
    case 0: return run_ring<Eigen::Vector2d>(c, ra, cap, ops, cat, "Vector2d", hf, observe_from);
    case 1: return run_ring<Eigen::Vector3d>(c, ra, cap, ops, cat, "Vector3d", hf, observe_from);
    case 2: return run_ring<Eigen::Vector4d>(c, ra, cap, ops, cat, "Vector4d", hf, observe_from);
    case 3: return run_ring<Eigen::Vector2f>(c, ra, cap, ops, cat, "Vector2f", hf, observe_from);
    case 4: return run_ring<Eigen::Vector3f>(c, ra, cap, ops, cat, "Vector3f", hf, observe_from);
    case 5: return run_ring<Eigen::Matrix<double, 6, 1>>(c, ra, cap, ops, cat, "Vector6d", hf, observe_from);
    case 6: return run_ring<Eigen::Vector4f>(c, ra, cap, ops, cat, "Vector4f", hf, observe_from);
    case 7: return run_ring<Eigen::Vector3i>(c, ra, cap, ops, cat, "Vector3i", hf, observe_from);
    default: return run_ring<Eigen::VectorXd>(c, ra, cap, ops, cat, "VectorXd(5)", hf, observe_from);
  }
}

// ---------------------------------------------------------------------------------------------
// small-scope exhaustive part: every sequence over {update a, update b, reset} of depth 7 for
// W <= 3 (prefixes are checked on the way).  8 (class, W) combinations x 81 blocks; a block fixes
// the first four operations and enumerates the 27 continuations.
// ---------------------------------------------------------------------------------------------
static const uint64_t EXH_COMBOS = 8, EXH_BLOCKS = 81, EXH_CASES = EXH_COMBOS * EXH_BLOCKS;

static void exhaustive_case(vh::Ctx & c, vh::Rng & r, uint64_t idx)
{
  static const struct {int cls; int W;} COMBO[EXH_COMBOS] = {
    {0, 1}, {0, 2}, {0, 3}, {1, 2}, {1, 3}, {2, 1}, {2, 2}, {2, 3}};
  const auto combo = COMBO[idx / EXH_BLOCKS];
  const uint64_t block = idx % EXH_BLOCKS;
  const char * cat = "exhaustive_small_scope";
  c.cat(cat);
  c.cat(combo.cls == 0 ? "exhaustive_average" : combo.cls == 1 ? "exhaustive_variance" : "exhaustive_ring");
  Prec prec = pick_prec(r);
  ValueGen g = make_gen(r, prec.m);
  Op a, b;
  a.reset = false; b.reset = false;
  a.x = sample(r, g, a.v);
  b.x = a.x;
  for (int t = 0; t < 50 && b.x == a.x; ++t) {b.x = sample(r, g, b.v);}
  if (b.x == a.x) {b.x = a.x + 1.0 / (double)prec.m; if (!exact_trunc(b.x, prec.m, b.v)) {b = a;}}
  int rtype = (int)r.range(0, N_RING_TYPES - 1);
  bool via_set = r.coin(0.25);
  c.distinct(vh::hash_doubles({-1.0, (double)combo.cls, (double)combo.W, (double)block, prec.p, a.x, b.x}), true);
  c.sample(cat, [&]() {
      return vh::J().s("cat", cat).f("class", combo.cls).f("W", combo.W).f("block", block)
             .f("precision", prec.p).f("a", a.x).f("b", b.x).str();
    });
  for (int tail = 0; tail < 27; ++tail) {
    std::vector<Op> ops;
    uint64_t code = block + EXH_BLOCKS * (uint64_t)tail;      // 7 base-3 digits
    for (int d = 0; d < 7; ++d) {
      int sym = (int)(code % 3); code /= 3;
      if (sym == 2) {ops.push_back({true, 0.0, 0});} else {ops.push_back(sym == 0 ? a : b);}
    }
    HistoryFacts hf;
    bool ok;
    if (combo.cls == 2) {
      vh::Rng ra(c.seed, idx, 100 + (uint64_t)tail);
      ok = run_ring_typed(c, ra, rtype, combo.W, ops, cat, hf);
      note_facts(c, hf, "exh_ring");
    } else {
      StatCfg s{combo.cls == 1, combo.W, prec, via_set, cat};
      s.allow_reconfigure = false;       // keeps the scope W <= 3
      vh::Rng rs(c.seed, idx, 200 + (uint64_t)tail);
      ok = run_stats(c, rs, s, ops, hf);
      note_facts(c, hf, combo.cls == 1 ? "exh_variance" : "exh_average");
    }
    c.count("exhaustive_sequences");
    if (!ok) {return;}
  }
}

// ---------------------------------------------------------------------------------------------
// long histories: one cheap mutator repeated 2^8+k or 2^16+k times (k = 0..W+3) before the first
// observation (8/16-bit counters, wrap-around of the replacement index), then W+3 observed operations.
//   shape 0: that many update()/append();  shape 1: a few samples, then that many reset()/clear();
//   shape 2: alternating sample / reset.
// (Longer than the 10 W of the statement's quantifier, but "no accumulated drift" is about exactly this.)
// ---------------------------------------------------------------------------------------------
static void long_history_case(vh::Ctx & c, vh::Rng & r, uint64_t idx)
{
  const char * cat = "long_history";
  c.cat(cat);
  const int cls = (int)r.range(0, 2);
  // (the valgrind flavour replays case indices < 3000 at ~50x slowdown: only the 2^8 variant there)
  const bool big = r.coin(0.3) && idx >= 3000;
  const int W = cls == 2 ? (int)r.range(1, 16) : (int)r.range(cls == 1 ? 2 : 1, 64);
  const long long reps = (big ? 65536 : 256) + r.range(0, W + 3);
  const int shape = (int)r.range(0, 3) % 3;     // shape 0 twice as likely
  c.cat(big ? "long_history_2pow16_plus_k" : "long_history_2pow8_plus_k");
  c.cat(std::string("long_history_") + (cls == 0 ? "average" : cls == 1 ? "variance" : "ring"));
  c.cat(std::string("long_history_shape_") + std::to_string(shape));
  Prec prec = cls == 2 ? Prec{1.0, 1} : pick_prec(r);
  ValueGen g = make_gen(r, prec.m);
  if (cls == 2) {g.mode = 1;}
  std::vector<Op> ops;
  ops.reserve((size_t)reps + 2 * (size_t)W + 8);
  auto upd = [&]() {Op o; o.reset = false; o.x = sample(r, g, o.v); ops.push_back(o);};
  if (shape == 0) {
    for (long long i = 0; i < reps; ++i) {upd();}
  } else if (shape == 1) {
    long long pre = r.range(0, W + 1);
    for (long long i = 0; i < pre; ++i) {upd();}
    for (long long i = 0; i < reps; ++i) {ops.push_back({true, 0.0, 0});}
  } else {
    for (long long i = 0; i < reps; ++i) {if (i & 1) {ops.push_back({true, 0.0, 0});} else {upd();}}
  }
  const size_t observe_from = ops.size() - 1;
  for (int i = 0; i < W + 3; ++i) {if (r.coin(0.08)) {ops.push_back({true, 0.0, 0});} else {upd();}}
  c.sample(cat, [&]() {
      return vh::J().s("cat", cat).f("class", cls).f("W", W).f("precision", prec.p).f("repetitions", (int64_t)reps)
             .f("shape", shape).f("history_length", (uint64_t)ops.size()).str();
    });
  c.distinct(vh::hash_doubles({-2.0, (double)cls, (double)W, (double)reps, (double)shape, prec.p, ops[0].x}), true);
  HistoryFacts hf;
  if (cls == 2) {
    vh::Rng ra(c.seed, idx, 1);
    run_ring_typed(c, ra, (int)r.range(0, N_RING_TYPES - 1), W, ops, cat, hf, observe_from);
    note_facts(c, hf, "long_ring");
  } else {
    StatCfg s{cls == 1, W, prec, r.coin(0.2), cat};
    s.observe_from = observe_from;
    vh::Rng rs(c.seed, idx, 2);
    run_stats(c, rs, s, ops, hf);
    note_facts(c, hf, cls == 1 ? "long_variance" : "long_average");
  }
  c.count("long_history_operations", (uint64_t)ops.size());
}

// ---------------------------------------------------------------------------------------------
static void one_case(vh::Ctx & c, uint64_t idx)
{
  vh::Rng r(c.seed, idx);
  if (idx < EXH_CASES) {exhaustive_case(c, r, idx); return;}
  {
    vh::Rng rl(c.seed, idx, 3);
    if (rl.coin(0.006)) {long_history_case(c, rl, idx); return;}
  }

  int cls = (int)r.range(0, 9);       // 0-3 average, 4-7 variance, 8-9 ring
  if (cls <= 7) {
    bool variance = cls >= 4;
    int W;
    int wk = (int)r.range(0, 9);
    int lo = variance ? 2 : 1;
    if (wk <= 4) {W = (int)r.range(lo, 64);} else if (wk <= 7) {W = (int)r.range(lo, 8);} else if (wk == 8) {
      W = 64;
    } else {W = lo;}
    Prec prec = pick_prec(r);
    ValueGen g = make_gen(r, prec.m);
    bool via_set = r.coin(0.2);
    const char * cat = variance ? "variance" : "average";
    c.cat(cat);
    if (via_set) {c.cat("ctor_then_setWindowSize");}
    if (prec.m > 46340) {c.cat("precision_fine_squared_multiplier_over_int32");}
    c.cat(std::string("precision_m_") + std::to_string(prec.m));
    c.cat(std::string("value_mode_") + std::to_string(g.mode));
    int plan_mode = 0;
    std::vector<Op> ops = gen_stat_history(r, W, g, plan_mode);
    c.cat(std::string("reset_plan_") + std::to_string(plan_mode));
    if (ops.empty()) {c.cat("history_empty");}
    uint64_t h = vh::hash_doubles({(double)cls, (double)W, prec.p, (double)ops.size(), via_set ? 1.0 : 0.0});
    for (size_t i = 0; i < ops.size(); ++i) {h = vh::hash_add(h, ops[i].reset ? 1e300 : ops[i].x);}
    c.sample(cat, [&]() {
        return vh::J().s("cat", cat).f("W", W).f("precision", prec.p).f("history_length", (uint64_t)ops.size())
               .f("value_mode", g.mode).f("reset_plan", plan_mode).boolean("via_setWindowSize", via_set)
               .raw("first_ops", ops_json(ops, 11)).str();
      });
    HistoryFacts hf;
    StatCfg s{variance, W, prec, via_set, cat};
    vh::Rng rs(c.seed, idx, 2);       // separate stream: call styles, copies, siblings, self-aliasing
    run_stats(c, rs, s, ops, hf);
    note_facts(c, hf, cat);
    c.distinct(h, hf.wrapped || hf.reset_then_update);
    return;
  }
  // ---- ring
  const char * cat = "ring";
  c.cat(cat);
  int cap;
  int ck = (int)r.range(0, 3);
  if (ck <= 2) {cap = (int)r.range(1, 16);} else {
    static const int NP2[] = {3, 5, 6, 7, 9, 10, 11, 12, 13, 14, 15};
    cap = NP2[r.range(0, 10)];
  }
  bool pow2 = (cap & (cap - 1)) == 0;
  c.cat(pow2 ? "ring_capacity_pow2" : "ring_capacity_non_pow2");
  int type = (int)r.range(0, N_RING_TYPES - 1);
  c.cat(std::string("ring_element_type_") + std::to_string(type));
  ValueGen g = make_gen(r, 1);
  g.mode = 1;
  int plan_mode = 0;
  std::vector<Op> ops = gen_stat_history(r, cap, g, plan_mode);
  c.cat(std::string("clear_plan_") + std::to_string(plan_mode));
  uint64_t h = vh::hash_doubles({9.0, (double)cap, (double)type, (double)ops.size()});
  for (size_t i = 0; i < ops.size(); ++i) {h = vh::hash_add(h, ops[i].reset ? 1e300 : ops[i].x);}
  c.sample(cat, [&]() {
      return vh::J().s("cat", cat).f("capacity", cap).f("element_type", type)
             .f("history_length", (uint64_t)ops.size()).f("clear_plan", plan_mode).str();
    });
  HistoryFacts hf;
  vh::Rng ra(c.seed, idx, 1);       // separate stream: which appends alias the ring's own entries
  run_ring_typed(c, ra, type, cap, ops, cat, hf);
  note_facts(c, hf, "ring");
  c.distinct(h, hf.wrapped || hf.reset_then_update);
}

int main(int argc, char ** argv)
{
  return vh::run(argc, argv, "C16", {100000, 5000000}, one_case, [](vh::Ctx & c) {
      c.count("samples_generated", g_samples);
      c.count("samples_redrawn_ambiguous_or_out_of_domain", g_redraws);
      c.count("samples_replaced_by_zero_after_200_redraws", g_fallbacks);
    });
}
