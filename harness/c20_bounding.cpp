// C20  Bounding volumes and point-set extents enclose exactly what they should.
//
// Oracles are the definitions, evaluated in long double on the very operands handed to the
// library (no second implementation of the library's formulas):
//   * AABB(interval).toInterval() == interval                       (exact on dyadic operands,
//                                                                     8 eps * max(|l|,|u|) otherwise)
//   * AABB containment  <=>  |p_j - c_j| <= h_j for every j          (2.6(3): exact regime when
//     p-c, c-h, c+h are all representable, ambiguity band of 4 eps * largest operand otherwise)
//   * OBB containment   <=>  |(R^T (p-c))_j| <= h_j                  (exact regime: signed
//     permutation R and representable p-c; band 8 eps * sum_k |R_kj| (|p_k|+|c_k|) otherwise)
//     both containments are also driven with tiny lengths (half extents / offsets 0, denormal, log-uniform
//     up from the denormals; centre at the origin => every operand representable => exact regime); the
//     bands then include the absolute error of underflowing products
//   * OBB -> AABB: brute force over the 2^DIM corners c + R (s o h): every corner is inside the
//     returned box and every face is reached by some corner (16 eps * half-extent + 2 eps * |c|)
//   * Interval::include == running componentwise min/max (exact), Interval::inside closed (exact)
//   * point sets: min / max by exhaustive scan (exact), mean against the long-double mean within
//     the a-priori bound of sequential summation, scale * largest true side == 1 within 4 eps
//   * object semantics (sections J, K): references bound from getters / results held by value are re-compared at the end,
//     copies and moved-to objects behave as the original (source overwritten or destroyed), default-constructed objects
//     are the zero box / whole finite range, aliased arguments are read from their values at call time, temporaries give
//     the same answers, sibling objects do not interfere, 2^8+k / 2^16+k repetitions of include() and compute()
//   * magnitudes at both ends of the floating range up to the limits where the unchanged library stays finite
//     (boxes max/32, interval ends max/2, point coordinates max/4096); tolerances then carry an absolute denormal floor
#include <Eigen/Core>
#include <array>
#include <list>
#include <memory>
#include <vector>
#include "romea_core_common/containers/boundingbox/AxisAlignedBoundingBox.hpp"
#include "romea_core_common/containers/boundingbox/OrientedBoundingBox.hpp"
#include "romea_core_common/containers/Eigen/EigenContainers.hpp"
#include "romea_core_common/math/Interval.hpp"
#include "romea_core_common/pointset/algorithms/PointSetPreconditioner.hpp"
#include "vh.hpp"

typedef long double LD;
using vh::J;
using vh::Params;

template<class S> struct SN;
template<> struct SN<float> {static const char * name() {return "float";} static constexpr int id = 0;};
template<> struct SN<double> {static const char * name() {return "double";} static constexpr int id = 1;};

template<class S> static LD epsL() {return (LD)std::numeric_limits<S>::epsilon();}
// is the long-double value exactly a value of type S ?
template<class S> static bool repr(LD x) {return (LD)(S)x == x;}
static LD max3(LD a, LD b, LD c) {return std::max(a, std::max(b, c));}

// ------------------------------------------------------------------------------------------
// generators
// ------------------------------------------------------------------------------------------
// value on the grid 2^-k, |value| <= lim * 2^-k  (at most 17 significant bits: exact in float)
template<class S> static S dyadic(vh::Rng & r, int k, int64_t lim)
{
  return (S)std::ldexp((double)r.range(-lim, lim), -k);
}
template<class S> static S dyadic_pos(vh::Rng & r, int k, int64_t lim)
{
  return (S)std::ldexp((double)r.range(0, lim), -k);
}

struct Geo {double s; double off;};   // length scale and centre offset scale
static Geo pick_geo(vh::Rng & r)
{
  Geo g;
  g.s = r.logu(1e-3, 1e3);
  int k = (int)r.range(0, 3);
  g.off = k == 0 ? 0.0 : k == 1 ? g.s : k == 2 ? 30 * g.s : 1e3 * g.s;
  return g;
}

// lengths at the ends of the floating range.  tiny: 0, the smallest denormal, around the smallest normal, log-uniform
// from the denormals up to 1e-3.  huge: log-uniform from 1e3 up to lim (and lim itself), lim being the largest magnitude
// for which the unchanged library stays finite in the operation at hand (max/32 for the boxes, max/2 for interval ends,
// max/4096 for the coordinates of up to 1000 points that are summed).
template<class S> static LD tiny_len(vh::Rng & r)
{
  const bool dbl = sizeof(S) == 8;
  int m = (int)r.range(0, 9);
  if (m == 0) {return 0;}
  if (m == 1) {return (LD)std::numeric_limits<S>::denorm_min();}
  if (m == 2) {return (LD)(S)((LD)std::numeric_limits<S>::min() * (LD)r.logu(0.25, 4));}      // around the smallest normal
  return (LD)(S)(dbl ? r.logu(1e-300, 1e-3) : r.logu(1e-44, 1e-3));
}
template<class S> static LD huge_len(vh::Rng & r, LD lim)
{
  int m = (int)r.range(0, 9);
  if (m == 0) {return (LD)(S)lim;}
  if (m == 1) {return (LD)(S)(lim * (LD)r.uni(0.5, 1));}
  return (LD)(S)std::min(lim, (LD)r.logu(1e3, (double)lim));
}
template<class S> static LD box_lim() {return (LD)std::numeric_limits<S>::max() / 32;}
// regime 0: ordinary, 1: tiny, 2: huge
template<class S> static LD ext_len(vh::Rng & r, int regime, LD lim)
{
  return regime == 1 ? tiny_len<S>(r) : huge_len<S>(r, lim);
}

template<class S, int D>
static void gen_box_extreme(vh::Rng & r, int regime, Eigen::Matrix<S, D, 1> & c, Eigen::Matrix<S, D, 1> & h)
{
  int cm = (int)r.range(0, 2);       // centre: origin, same extreme scale, ordinary
  for (int j = 0; j < D; ++j) {
    h[j] = (S)ext_len<S>(r, regime, box_lim<S>());
    c[j] = cm == 0 ? (S)0 : cm == 1 ? (S)((LD)r.sign() * ext_len<S>(r, regime, box_lim<S>())) : (S)r.uni(-1, 1);
  }
}

template<class S, int D>
static void gen_box_generic(vh::Rng & r, const Geo & g, Eigen::Matrix<S, D, 1> & c, Eigen::Matrix<S, D, 1> & h)
{
  for (int j = 0; j < D; ++j) {
    c[j] = (S)(g.off * r.uni(-1, 1));
    h[j] = r.coin(0.1) ? (S)0 : (S)(g.s * r.uni(0, 1));
  }
}

template<class S, int D>
static void gen_box_dyadic(vh::Rng & r, int k, Eigen::Matrix<S, D, 1> & c, Eigen::Matrix<S, D, 1> & h)
{
  bool allzero = r.coin(0.05);
  bool origin = r.coin(0.08), cube = r.coin(0.08), integers = r.coin(0.08);
  if (integers) {k = 0;}
  S h0 = dyadic_pos<S>(r, k, 512);
  for (int j = 0; j < D; ++j) {
    c[j] = origin ? (r.coin(0.2) ? (S)-0.0 : (S)0) : dyadic<S>(r, k, 1024);
    h[j] = (allzero || r.coin(0.12)) ? (S)0 : cube ? h0 : dyadic_pos<S>(r, k, 512);
  }
}

// rotation: mode 0 identity, 1 signed permutation (exact), 2 multiples of 45 deg through cos/sin,
// 3 random, 4 tiny angle
template<class S, int D> struct Rot {Eigen::Matrix<S, D, D> R; bool perm; int mode;};

static void quat_to_mat(const double q[4], double M[3][3])
{
  double w = q[0], x = q[1], y = q[2], z = q[3];
  M[0][0] = 1 - 2 * (y * y + z * z); M[0][1] = 2 * (x * y - w * z); M[0][2] = 2 * (x * z + w * y);
  M[1][0] = 2 * (x * y + w * z); M[1][1] = 1 - 2 * (x * x + z * z); M[1][2] = 2 * (y * z - w * x);
  M[2][0] = 2 * (x * z - w * y); M[2][1] = 2 * (y * z + w * x); M[2][2] = 1 - 2 * (x * x + y * y);
}

template<class S>
static Rot<S, 2> gen_rot2(vh::Rng & r, bool want_perm)
{
  Rot<S, 2> o;
  o.mode = want_perm ? (int)r.range(0, 1) : (int)r.range(2, 4);
  o.perm = o.mode <= 1;
  if (o.mode == 0) {o.R << 1, 0, 0, 1; return o;}
  if (o.mode == 1) {
    static const int C[4] = {1, 0, -1, 0}, Sn[4] = {0, 1, 0, -1};
    int k = (int)r.range(0, 3);
    o.R << (S)C[k], (S)(-Sn[k]), (S)Sn[k], (S)C[k];
    return o;
  }
  double th = o.mode == 2 ? (double)r.range(-8, 8) * (M_PI / 4) : o.mode == 3 ? r.uni(-M_PI, M_PI) :
    r.sign() * r.logu(1e-12, 1e-3);
  o.R << (S)std::cos(th), (S)(-std::sin(th)), (S)std::sin(th), (S)std::cos(th);
  return o;
}

template<class S>
static Rot<S, 3> gen_rot3(vh::Rng & r, bool want_perm)
{
  Rot<S, 3> o;
  o.mode = want_perm ? (int)r.range(0, 1) : (int)r.range(2, 4);
  o.perm = o.mode <= 1;
  if (o.mode == 0) {o.R.setIdentity(); return o;}
  if (o.mode == 1) {
    int p[3] = {0, 1, 2};
    for (int i = 2; i > 0; --i) {std::swap(p[i], p[r.range(0, i)]);}
    int sg[3] = {r.coin() ? 1 : -1, r.coin() ? 1 : -1, 1};
    // parity of the permutation
    int inv = (p[0] > p[1]) + (p[0] > p[2]) + (p[1] > p[2]);
    int det = ((inv & 1) ? -1 : 1) * sg[0] * sg[1];
    sg[2] = det;            // makes the determinant +1
    o.R.setZero();
    for (int j = 0; j < 3; ++j) {o.R(p[j], j) = (S)sg[j];}
    return o;
  }
  double q[4];
  if (o.mode == 2) {           // multiple of 45 deg about a coordinate axis, possibly composed twice
    double th = (double)r.range(-8, 8) * (M_PI / 4);
    int ax = (int)r.range(0, 2);
    q[0] = std::cos(th / 2); q[1] = q[2] = q[3] = 0; q[1 + ax] = std::sin(th / 2);
  } else if (o.mode == 3) {
    double n = 0;
    do {
      for (auto & v : q) {v = r.normal();}
      n = std::sqrt(q[0] * q[0] + q[1] * q[1] + q[2] * q[2] + q[3] * q[3]);
    } while (n < 1e-3);
    for (auto & v : q) {v /= n;}
  } else {
    double th = r.sign() * r.logu(1e-12, 1e-3), a[3] = {r.normal(), r.normal(), r.normal()};
    double n = std::sqrt(a[0] * a[0] + a[1] * a[1] + a[2] * a[2]) + 1e-300;
    q[0] = std::cos(th / 2);
    for (int i = 0; i < 3; ++i) {q[1 + i] = std::sin(th / 2) * a[i] / n;}
  }
  double M[3][3];
  quat_to_mat(q, M);
  for (int i = 0; i < 3; ++i) {for (int j = 0; j < 3; ++j) {o.R(i, j) = (S)M[i][j];}}
  return o;
}

template<class S, int D> struct GenRot;
template<class S> struct GenRot<S, 2> {static Rot<S, 2> go(vh::Rng & r, bool p) {return gen_rot2<S>(r, p);}};
template<class S> struct GenRot<S, 3> {static Rot<S, 3> go(vh::Rng & r, bool p) {return gen_rot3<S>(r, p);}};

template<class S, int D>
static std::string box_json(
  const char * cat, const Eigen::Matrix<S, D, 1> & c, const Eigen::Matrix<S, D, 1> & h,
  const Eigen::Matrix<S, D, 1> * p = nullptr, const Eigen::Matrix<S, D, D> * R = nullptr)
{
  J j;
  j.s("cat", cat).s("scalar", SN<S>::name()).f("dim", D).raw("centre", vh::jvec(c)).raw("half", vh::jvec(h));
  if (p) {j.raw("point", vh::jvec(*p));}
  if (R) {j.raw("R", vh::jmat(*R));}
  return j.str();
}

template<class V> static uint64_t hvec(uint64_t h, const V & v)
{
  for (int i = 0; i < v.size(); ++i) {h = vh::hash_add(h, (double)v.data()[i]);}
  return h;
}

enum Verdict {V_IN, V_OUT, V_AMBIG};

// ------------------------------------------------------------------------------------------
// A. box built from an interval reproduces the interval
// ------------------------------------------------------------------------------------------
template<class S, int D>
static void case_aabb_interval(vh::Ctx & c, vh::Rng & r)
{
  using V = Eigen::Matrix<S, D, 1>;
  const char * cat = "aabb_from_interval";
  c.cat(cat);
  V lo, up;
  int em = (int)r.range(0, 19);
  bool dy = em < 8;
  int regime = em >= 18 ? (em == 18 ? 1 : 2) : 0;
  if (dy) {
    int k = (int)r.range(0, 6);
    for (int j = 0; j < D; ++j) {
      S a = dyadic<S>(r, k, 1024), b = r.coin(0.15) ? a : dyadic<S>(r, k, 1024);
      lo[j] = std::min(a, b); up[j] = std::max(a, b);
    }
  } else if (regime) {
    // ends down to the denormals / up to max/2, beyond which (upper + lower) overflows in the unchanged library
    c.cat(regime == 1 ? "aabb_from_interval_tiny" : "aabb_from_interval_huge");
    const LD lim = (LD)std::numeric_limits<S>::max() / 2;
    for (int j = 0; j < D; ++j) {
      S a = (S)((LD)r.sign() * ext_len<S>(r, regime, lim)), b = r.coin(0.1) ? a : (S)((LD)r.sign() * ext_len<S>(r, regime, lim));
      lo[j] = std::min(a, b); up[j] = std::max(a, b);
    }
  } else {
    Geo g = pick_geo(r);
    for (int j = 0; j < D; ++j) {
      S a = (S)(g.off * r.uni(-1, 1) + g.s * r.uni(-1, 1));
      S b = r.coin(0.1) ? a : (S)((double)a + g.s * r.uni(0, 2));
      lo[j] = std::min(a, b); up[j] = std::max(a, b);
    }
  }
  c.distinct(hvec(hvec(vh::hash_addi(0xA1, SN<S>::id * 8 + D), lo), up), true);
  auto wit = [&]() {
      return J().s("cat", cat).s("scalar", SN<S>::name()).f("dim", D).raw("lower", vh::jvec(lo))
             .raw("upper", vh::jvec(up)).str();
    };
  c.sample(cat, wit);
  romea::core::Interval<S, D> in(lo, up);
  romea::core::AxisAlignedBoundingBox<S, D> box(in);
  romea::core::Interval<S, D> back = box.toInterval();
  LD worst = 0, worst_exact = 0;
  int wj = 0;
  for (int j = 0; j < D; ++j) {
    LD m = std::max(fabsl((LD)lo[j]), fabsl((LD)up[j]));
    LD e = std::max(fabsl((LD)back.lower()[j] - (LD)lo[j]), fabsl((LD)back.upper()[j] - (LD)up[j]));
    if (e > worst_exact) {worst_exact = e;}
    // halving a denormal loses its last bit: (u+l)/2 and (u-l)/2 are each off by up to half a denorm_min
    LD tol = 8 * epsL<S>() * m + (regime == 1 ? 8 * (LD)std::numeric_limits<S>::denorm_min() : 0);
    LD ratio = tol > 0 ? e / tol : (e == 0 ? 0 : INFINITY);
    if (!(ratio <= worst)) {worst = ratio; wj = j;}
  }
  auto params = [&]() {
      return Params{{"scalar", (double)SN<S>::id}, {"dim", (double)D}, {"dyadic", dy ? 1.0 : 0.0},
        {"coordinate", (double)wj}, {"width", (double)((LD)up[wj] - (LD)lo[wj])},
        {"magnitude_regime", (double)regime}};
    };
  auto w2 = [&]() {
      return J().raw("case", wit()).raw("back_lower", vh::jvec(back.lower())).raw("back_upper", vh::jvec(back.upper()))
             .raw("box_centre", vh::jvec(box.getCenterPosition())).raw("box_half", vh::jvec(box.getHalfWidthExtents())).str();
    };
  if (dy) {
    c.expect("aabb.from_interval.exact", worst_exact == 0, "aabb_interval_mismatch", params, w2);
  } else {
    c.expect_le("aabb.from_interval.rel", worst, 1.0L, "aabb_interval_mismatch", params, w2);
  }
}

// ------------------------------------------------------------------------------------------
// B/C. axis-aligned containment
// ------------------------------------------------------------------------------------------
template<class S, int D>
static Verdict aabb_truth(
  const Eigen::Matrix<S, D, 1> & c, const Eigen::Matrix<S, D, 1> & h, const Eigen::Matrix<S, D, 1> & p,
  bool & all_exact, LD & closest_rel)
{
  bool any_out = false, all_in = true;
  all_exact = true;
  closest_rel = INFINITY;
  for (int j = 0; j < D; ++j) {
    LD d = (LD)p[j] - (LD)c[j];
    LD m = fabsl(d) - (LD)h[j];
    bool ex = repr<S>(d) && repr<S>((LD)c[j] - (LD)h[j]) && repr<S>((LD)c[j] + (LD)h[j]);
    LD big = max3(fabsl((LD)p[j]), fabsl((LD)c[j]), (LD)h[j]);
    LD band = ex ? 0 : 4 * epsL<S>() * big + 2 * (LD)std::numeric_limits<S>::denorm_min();
    if (big > 0) {closest_rel = std::min(closest_rel, fabsl(m) / big);}
    if (!ex) {all_exact = false;}
    if (m > band) {any_out = true;} else if (ex ? (m <= 0) : (m < -band)) { /* inside in j */} else {all_in = false;}
  }
  return any_out ? V_OUT : (all_in ? V_IN : V_AMBIG);
}

template<class S, int D>
static void case_aabb_inside(vh::Ctx & c, vh::Rng & r, bool exact_cat)
{
  using V = Eigen::Matrix<S, D, 1>;
  const char * cat = exact_cat ? "aabb_inside_dyadic" : "aabb_inside_generic";
  c.cat(cat);
  V ce, h, p;
  bool boundary = false;
  bool via_interval = false;
  if (exact_cat) {
    int k = (int)r.range(0, 6);
    S g = (S)std::ldexp(1.0, -k);
    gen_box_dyadic<S, D>(r, k, ce, h);
    int nface = 0;
    for (int j = 0; j < D; ++j) {
      int m = (int)r.range(0, 9);
      S sg = r.coin() ? (S)1 : (S)-1;
      if (m <= 3) {p[j] = ce[j] + sg * h[j]; ++nface;}                                 // on a face
      else if (m == 4) {p[j] = ce[j];}
      else if (m == 5) {p[j] = ce[j] + sg * (S)std::floor(r.uni() * ((double)h[j] / g + 1)) * g;}    // interior grid
      else if (m == 6) {p[j] = ce[j] + sg * (h[j] + (S)r.range(1, 40) * g);}          // exterior grid
      else if (m == 7) {p[j] = std::nextafter((S)(ce[j] + sg * h[j]), sg * std::numeric_limits<S>::infinity());}
      else if (m == 8) {p[j] = std::nextafter((S)(ce[j] + sg * h[j]), -sg * std::numeric_limits<S>::infinity());}
      else {p[j] = ce[j] + sg * h[j]; ++nface;}
    }
    boundary = nface > 0;
    if (nface == D) {c.cat("aabb_corner_point");} else if (nface >= 1) {c.cat(nface == 1 ? "aabb_face_point" : "aabb_edge_point");}
    if ((h.array() == 0).all()) {c.cat("aabb_zero_extent");}
    via_interval = r.coin(0.5);
  } else {
    Geo g = pick_geo(r);
    gen_box_generic<S, D>(r, g, ce, h);
    for (int j = 0; j < D; ++j) {
      int m = (int)r.range(0, 11);
      double sg = r.sign();
      double big = std::max({std::fabs((double)ce[j]), (double)h[j], g.s * 1e-3});
      if (m <= 4) {p[j] = (S)((double)ce[j] + (double)h[j] * r.uni(-1, 1));} else if (m <= 6) {
        p[j] = (S)((double)ce[j] + sg * ((double)h[j] * r.uni(1, 3) + g.s * r.uni(0, 1)));
      } else if (m == 7) {p[j] = (S)(ce[j] + (S)sg * h[j]); boundary = true;} else {
        // offset from the face: half an ulp .. 1e5 ulps of the largest operand, either side
        LD v = (LD)ce[j] + (LD)sg * ((LD)h[j] + (LD)r.sign() * (LD)big * epsL<S>() * (LD)r.logu(0.5, 1e5));
        p[j] = (S)v; boundary = true;
      }
    }
  }
  bool trivial = !exact_cat && !boundary && SN<S>::id == 1 && D == 2;
  c.distinct(hvec(hvec(hvec(vh::hash_addi(0xB1, SN<S>::id * 8 + D), ce), h), p), !trivial);
  auto wit = [&]() {return box_json<S, D>(cat, ce, h, &p);};
  c.sample(cat, wit);

  bool all_exact; LD closest;
  Verdict t = aabb_truth<S, D>(ce, h, p, all_exact, closest);
  bool got;
  if (via_interval) {
    // the same box, built from its extremities (exact on the grid)
    romea::core::Interval<S, D> in(V(ce - h), V(ce + h));
    romea::core::AxisAlignedBoundingBox<S, D> box(in);
    got = box.isInside(p);
    c.count("aabb_inside_via_interval_ctor");
  } else {
    romea::core::AxisAlignedBoundingBox<S, D> box(ce, h);
    got = box.isInside(p);
    if (exact_cat) {
      // faces of the box are at centre -+ half extent (everything representable on the grid)
      romea::core::Interval<S, D> iv = box.toInterval();
      bool same = true;
      for (int j = 0; j < D; ++j) {
        same = same && (LD)iv.lower()[j] == (LD)ce[j] - (LD)h[j] && (LD)iv.upper()[j] == (LD)ce[j] + (LD)h[j];
      }
      c.expect("aabb.to_interval.exact", same, "aabb_interval_mismatch", [&]() {
          return Params{{"scalar", (double)SN<S>::id}, {"dim", (double)D}, {"dyadic", 1.0}, {"coordinate", -1.0},
            {"width", (double)(2 * h.maxCoeff())}};
        }, [&]() {
          return J().raw("case", wit()).raw("got_lower", vh::jvec(iv.lower())).raw("got_upper", vh::jvec(iv.upper())).str();
        });
    }
  }
  if (t == V_AMBIG) {c.skip("aabb.inside:ambiguity_band"); return;}
  auto params = [&]() {
      return Params{{"scalar", (double)SN<S>::id}, {"dim", (double)D}, {"expected_inside", t == V_IN ? 1.0 : 0.0},
        {"exact_regime", all_exact ? 1.0 : 0.0}, {"rel_distance_to_face", (double)closest},
        {"min_half_extent", (double)h.minCoeff()}};
    };
  auto w2 = [&]() {return J().raw("case", wit()).boolean("library_inside", got).boolean("via_interval", via_interval).str();};
  c.expect(all_exact ? "aabb.inside.exact" : "aabb.inside.generic", got == (t == V_IN), "aabb_inside_wrong", params, w2);
  if (all_exact && closest == 0) {c.count("aabb_exact_on_boundary_checked");}
}

// ------------------------------------------------------------------------------------------
// D/E. oriented containment
// ------------------------------------------------------------------------------------------
template<class S, int D>
static Verdict obb_truth(
  const Eigen::Matrix<S, D, 1> & c, const Eigen::Matrix<S, D, 1> & h, const Eigen::Matrix<S, D, D> & R, bool perm,
  const Eigen::Matrix<S, D, 1> & p, bool & all_exact, LD & closest_rel)
{
  LD d[D];
  bool drep = true;
  for (int k = 0; k < D; ++k) {d[k] = (LD)p[k] - (LD)c[k]; drep = drep && repr<S>(d[k]);}
  all_exact = perm && drep;
  bool any_out = false, all_in = true;
  closest_rel = INFINITY;
  for (int j = 0; j < D; ++j) {
    LD q = 0, mag = 0;
    for (int k = 0; k < D; ++k) {
      q += (LD)R(k, j) * d[k];
      mag += fabsl((LD)R(k, j)) * (fabsl((LD)p[k]) + fabsl((LD)c[k]));
    }
    LD m = fabsl(q) - (LD)h[j];
    // relative rounding of the sums and products, plus the absolute error of products that underflow
    LD band = all_exact ? 0 : 8 * epsL<S>() * std::max(mag, (LD)h[j]) + 4 * D * (LD)std::numeric_limits<S>::denorm_min();
    LD big = std::max(mag, (LD)h[j]);
    if (big > 0) {closest_rel = std::min(closest_rel, fabsl(m) / big);}
    if (m > band) {any_out = true;} else if (all_exact ? (m <= 0) : (m < -band)) {} else {all_in = false;}
  }
  return any_out ? V_OUT : (all_in ? V_IN : V_AMBIG);
}

template<class S, int D>
static void case_obb_inside(vh::Ctx & c, vh::Rng & r, bool exact_cat)
{
  using V = Eigen::Matrix<S, D, 1>;
  const char * cat = exact_cat ? "obb_inside_dyadic_axis_rotation" : "obb_inside_generic";
  c.cat(cat);
  V ce, h, p;
  Rot<S, D> rot = GenRot<S, D>::go(r, exact_cat);
  c.cat(std::string("rotation_mode_") + std::to_string(rot.mode));
  LD loc[D];
  bool boundary = false;
  if (exact_cat) {
    int k = (int)r.range(0, 6);
    S g = (S)std::ldexp(1.0, -k);
    gen_box_dyadic<S, D>(r, k, ce, h);
    int nface = 0;
    for (int j = 0; j < D; ++j) {
      int m = (int)r.range(0, 6);
      S sg = r.coin() ? (S)1 : (S)-1;
      S v;
      if (m <= 3) {v = sg * h[j]; ++nface;} else if (m == 4) {
        v = sg * (S)std::floor(r.uni() * ((double)h[j] / g + 1)) * g;
      } else if (m == 5) {v = sg * (h[j] + (S)r.range(1, 40) * g);} else {v = 0;}
      loc[j] = v;
    }
    boundary = nface > 0;
    if (nface == D) {c.cat("obb_corner_point");} else if (nface >= 1) {c.cat(nface == 1 ? "obb_face_point" : "obb_edge_point");}
    if ((h.array() == 0).all()) {c.cat("obb_zero_extent");}
  } else {
    Geo g = pick_geo(r);
    gen_box_generic<S, D>(r, g, ce, h);
    for (int j = 0; j < D; ++j) {
      int m = (int)r.range(0, 11);
      double sg = r.sign();
      double big = std::max({std::fabs((double)ce.cwiseAbs().maxCoeff()), (double)h[j], g.s * 1e-3});
      if (m <= 4) {loc[j] = (LD)h[j] * r.uni(-1, 1);} else if (m <= 6) {
        loc[j] = sg * ((LD)h[j] * r.uni(1, 3) + g.s * r.uni(0, 1));
      } else if (m == 7) {loc[j] = sg * (LD)h[j]; boundary = true;} else {
        // offset from the face: 2 .. 1e5 ulps of the largest operand, either side
        loc[j] = sg * ((LD)h[j] + (LD)r.sign() * (LD)big * epsL<S>() * (LD)r.logu(2, 1e5)); boundary = true;
      }
    }
  }
  for (int i = 0; i < D; ++i) {
    LD v = (LD)ce[i];
    for (int j = 0; j < D; ++j) {v += (LD)rot.R(i, j) * loc[j];}
    p[i] = (S)v;
  }
  if (exact_cat && r.coin(0.2)) {           // one-ulp neighbour in the world frame
    int i = (int)r.range(0, D - 1);
    p[i] = std::nextafter(p[i], r.sign() * std::numeric_limits<S>::infinity());
  }
  c.distinct(hvec(hvec(hvec(hvec(vh::hash_addi(0xD1, SN<S>::id * 8 + D), ce), h), p), rot.R), true);
  auto wit = [&]() {return box_json<S, D>(cat, ce, h, &p, &rot.R);};
  c.sample(cat, wit);

  romea::core::OrientedBoundingBox<S, D> box(ce, h, rot.R);
  bool got = box.isInside(p);
  bool all_exact; LD closest;
  Verdict t = obb_truth<S, D>(ce, h, rot.R, rot.perm, p, all_exact, closest);
  if (t == V_AMBIG) {c.skip("obb.inside:ambiguity_band"); return;}
  auto params = [&]() {
      return Params{{"scalar", (double)SN<S>::id}, {"dim", (double)D}, {"expected_inside", t == V_IN ? 1.0 : 0.0},
        {"exact_regime", all_exact ? 1.0 : 0.0}, {"rotation_mode", (double)rot.mode},
        {"rel_distance_to_face", (double)closest}, {"min_half_extent", (double)h.minCoeff()}};
    };
  auto w2 = [&]() {return J().raw("case", wit()).boolean("library_inside", got).str();};
  c.expect(all_exact ? "obb.inside.exact" : "obb.inside.generic", got == (t == V_IN), "obb_inside_wrong", params, w2);
  if (all_exact && closest == 0) {c.count("obb_exact_on_boundary_checked");}
  (void)boundary;
}

// ------------------------------------------------------------------------------------------
// B'/D'. boxes whose lengths are tiny: half extents 0, the smallest denormal, or log-uniform from
// the denormals up to 1e-3; centre at the origin, tiny, or ordinary; query points displaced from
// the faces by offsets of the same tiny scales, either side.  With the centre at the origin (and
// an axis permutation as rotation) every operand is representable, so the verdict is required
// exactly; otherwise the band (which includes the absolute error of underflowing products) decides.
// ------------------------------------------------------------------------------------------
template<class S, int D>
static void case_tiny_box(vh::Ctx & c, vh::Rng & r, bool oriented, int regime = 1)
{
  using V = Eigen::Matrix<S, D, 1>;
  const bool tiny = regime == 1;
  const LD lim = box_lim<S>();
  const char * cat = tiny ? (oriented ? "obb_inside_tiny_lengths" : "aabb_inside_tiny_lengths") :
    (oriented ? "obb_inside_huge_lengths" : "aabb_inside_huge_lengths");
  c.cat(cat);
  c.cat(tiny ? "tiny_length_boxes" : "huge_length_boxes");
  V ce, h, p;
  Rot<S, D> rot = GenRot<S, D>::go(r, !oriented || r.coin(0.6));
  if (!oriented) {rot.R.setIdentity(); rot.perm = true; rot.mode = 0;}
  int cm = (int)r.range(0, 9);      // centre: 0..4 origin, 5..7 tiny, 8..9 ordinary
  bool same_scale = r.coin(0.5);    // all axes share one tiny scale (keeps the other axes from deciding)
  LD common = ext_len<S>(r, regime, lim);
  LD loc[D];
  for (int j = 0; j < D; ++j) {
    LD hj = same_scale && r.coin(0.7) ? common : ext_len<S>(r, regime, lim);
    h[j] = (S)hj;
    ce[j] = cm <= 4 ? (S)0 : cm <= 7 ? (S)((LD)r.sign() * ext_len<S>(r, regime, lim)) : (S)r.uni(-1, 1);
    // local coordinate of the query point
    int m = (int)r.range(0, 9);
    LD sg = r.sign();
    LD off;
    int om = (int)r.range(0, 3);
    if (om == 0) {
      off = tiny ? (LD)std::numeric_limits<S>::denorm_min() * (LD)r.range(1, 3) : (LD)h[j] * epsL<S>() * (LD)r.range(1, 3);
    } else if (om == 1) {
      off = ext_len<S>(r, regime, lim);
    } else if (om == 2) {off = (LD)h[j] * (LD)r.logu(1e-8, 1.0);} else {off = (LD)h[j] * epsL<S>() * (LD)r.range(1, 8);}
    if (m <= 2) {loc[j] = (LD)h[j] * (LD)r.uni(-1, 1);}                 // inside
    else if (m == 3) {loc[j] = sg * (LD)h[j];}                          // on the face
    else if (m == 4) {loc[j] = 0;}
    else if (m <= 7) {loc[j] = sg * ((LD)h[j] + off);}                  // outside by a tiny offset
    else {loc[j] = sg * ((LD)h[j] - off);}                              // inside by a tiny offset (may cross over)
  }
  if (tiny && (h.array() == 0).all()) {c.cat("tiny_zero_extent");}
  if (cm <= 4) {c.cat(tiny ? "tiny_centre_origin" : "huge_centre_origin");}
  for (int i = 0; i < D; ++i) {
    LD v = (LD)ce[i];
    for (int j = 0; j < D; ++j) {v += (LD)rot.R(i, j) * loc[j];}
    p[i] = (S)v;
  }
  c.distinct(hvec(hvec(hvec(hvec(vh::hash_addi(0xE1, SN<S>::id * 8 + D + (oriented ? 64 : 0) + regime * 128), ce), h), p), rot.R), true);
  auto wit = [&]() {return box_json<S, D>(cat, ce, h, &p, oriented ? &rot.R : nullptr);};
  c.sample(cat, wit);

  bool got, all_exact; LD closest;
  Verdict t;
  if (oriented) {
    romea::core::OrientedBoundingBox<S, D> box(ce, h, rot.R);
    got = box.isInside(p);
    t = obb_truth<S, D>(ce, h, rot.R, rot.perm, p, all_exact, closest);
  } else {
    romea::core::AxisAlignedBoundingBox<S, D> box(ce, h);
    got = box.isInside(p);
    t = aabb_truth<S, D>(ce, h, p, all_exact, closest);
  }
  if (t == V_AMBIG) {
    c.skip(std::string(oriented ? "obb.inside." : "aabb.inside.") + (tiny ? "tiny" : "huge") + ":ambiguity_band");
    return;
  }
  auto params = [&]() {
      return Params{{"scalar", (double)SN<S>::id}, {"dim", (double)D}, {"expected_inside", t == V_IN ? 1.0 : 0.0},
        {"exact_regime", all_exact ? 1.0 : 0.0}, {"rotation_mode", (double)rot.mode},
        {"rel_distance_to_face", (double)closest}, {"min_half_extent", (double)h.minCoeff()},
        {"max_half_extent", (double)h.maxCoeff()}, {"max_abs_centre", (double)ce.cwiseAbs().maxCoeff()}};
    };
  auto w2 = [&]() {return J().raw("case", wit()).boolean("library_inside", got).str();};
  std::string oracle = std::string(oriented ? "obb.inside." : "aabb.inside.") + (tiny ? "tiny." : "huge.") +
    (all_exact ? "exact" : "generic");
  c.expect(oracle.c_str(), got == (t == V_IN), oriented ? "obb_inside_wrong" : "aabb_inside_wrong", params, w2);
  if (all_exact && t == V_OUT) {c.count(tiny ? "tiny_exact_outside_checked" : "huge_exact_outside_checked");}
}

// ------------------------------------------------------------------------------------------
// F. enclosing axis-aligned box of an oriented box
// ------------------------------------------------------------------------------------------
template<class S, int D>
static void case_obb_to_aabb(vh::Ctx & c, vh::Rng & r)
{
  using V = Eigen::Matrix<S, D, 1>;
  const char * cat = "obb_to_aabb";
  c.cat(cat);
  V ce, h;
  Rot<S, D> rot = GenRot<S, D>::go(r, r.coin(0.25));
  c.cat(std::string("rotation_mode_") + std::to_string(rot.mode));
  int regime = 0;
  {
    int gm = (int)r.range(0, 19);
    if (gm < 6) {gen_box_dyadic<S, D>(r, (int)r.range(0, 6), ce, h);} else if (gm < 17) {
      Geo g = pick_geo(r); gen_box_generic<S, D>(r, g, ce, h);
    } else {
      regime = gm == 17 ? 1 : (r.coin() ? 1 : 2);
      gen_box_extreme<S, D>(r, regime, ce, h);
      c.cat(regime == 1 ? "obb_to_aabb_tiny_lengths" : "obb_to_aabb_huge_lengths");
    }
  }
  const LD uflow = 4 * D * (LD)std::numeric_limits<S>::denorm_min();   // absolute error of underflowing products
  c.distinct(hvec(hvec(hvec(vh::hash_addi(0xF1, SN<S>::id * 8 + D), ce), h), rot.R), true);
  auto wit = [&]() {return box_json<S, D>(cat, ce, h, (const V *)nullptr, &rot.R);};
  c.sample(cat, wit);

  romea::core::OrientedBoundingBox<S, D> obb(ce, h, rot.R);
  romea::core::AxisAlignedBoundingBox<S, D> box = obb.toAxisAlignedBoundingBox();
  V bc = box.getCenterPosition(), bh = box.getHalfWidthExtents();

  LD hi[D], lo[D];
  for (int j = 0; j < D; ++j) {hi[j] = -INFINITY; lo[j] = INFINITY;}
  for (int s = 0; s < (1 << D); ++s) {
    for (int i = 0; i < D; ++i) {
      LD v = (LD)ce[i];
      for (int j = 0; j < D; ++j) {v += (LD)rot.R(i, j) * (((s >> j) & 1) ? (LD)h[j] : -(LD)h[j]);}
      hi[i] = std::max(hi[i], v); lo[i] = std::min(lo[i], v);
    }
  }
  LD worst_out = 0, worst_gap = 0;
  bool finite = true;
  int jo = 0, jg = 0;
  LD Hmax = 0;
  for (int j = 0; j < D; ++j) {
    finite = finite && std::isfinite(bc[j]) && std::isfinite(bh[j]);
    LD H = (hi[j] - lo[j]) / 2;
    Hmax = std::max(Hmax, H);
    LD tol = 16 * epsL<S>() * H + 2 * epsL<S>() * fabsl((LD)ce[j]) + (regime == 1 ? uflow : 0);
    LD up = (LD)bc[j] + (LD)bh[j], dn = (LD)bc[j] - (LD)bh[j];
    LD out = std::max((LD)0, std::max(hi[j] - up, dn - lo[j]));     // a corner sticks out
    LD gap = std::max((LD)0, std::max(up - hi[j], lo[j] - dn));     // a face nobody reaches
    LD ro = tol > 0 ? out / tol : (out == 0 ? 0 : INFINITY), rg = tol > 0 ? gap / tol : (gap == 0 ? 0 : INFINITY);
    if (ro > worst_out) {worst_out = ro; jo = j;}
    if (rg > worst_gap) {worst_gap = rg; jg = j;}
  }
  auto params = [&]() {
      return Params{{"scalar", (double)SN<S>::id}, {"dim", (double)D}, {"rotation_mode", (double)rot.mode},
        {"coordinate_out", (double)jo}, {"coordinate_gap", (double)jg}, {"largest_half_extent", (double)Hmax},
        {"magnitude_regime", (double)regime}};
    };
  auto w2 = [&]() {
      return J().raw("case", wit()).raw("aabb_centre", vh::jvec(bc)).raw("aabb_half", vh::jvec(bh))
             .arr("true_upper", hi, hi + D).arr("true_lower", lo, lo + D).str();
    };
  if (!c.expect("obb2aabb.finite", finite, "obb_aabb_not_enclosing", params, w2)) {return;}
  c.expect_le("obb2aabb.corners_enclosed", worst_out, 1.0L, "obb_aabb_not_enclosing", params, w2);
  c.expect_le("obb2aabb.faces_touched", worst_gap, 1.0L, "obb_aabb_not_tight", params, w2);

  // points of the oriented box must be points of the enclosing box (checked away from its faces)
  for (int rep = 0; rep < 2; ++rep) {
    V p;
    LD loc[D];
    for (int j = 0; j < D; ++j) {loc[j] = (LD)h[j] * (r.coin(0.1) ? r.sign() : r.uni(-1, 1));}
    bool clear = true;
    for (int i = 0; i < D; ++i) {
      LD v = (LD)ce[i];
      for (int j = 0; j < D; ++j) {v += (LD)rot.R(i, j) * loc[j];}
      p[i] = (S)v;
      LD H = (hi[i] - lo[i]) / 2;
      LD band = 8 * epsL<S>() * (fabsl((LD)p[i]) + fabsl((LD)ce[i])) + 16 * epsL<S>() * H + 2 * uflow;
      if (!(H - fabsl((LD)p[i] - (LD)ce[i]) > band)) {clear = false;}
    }
    if (!clear) {c.skip("obb2aabb.point:ambiguity_band"); continue;}
    bool got = box.isInside(p);
    c.expect("obb2aabb.point_of_obb_inside", got, "obb_aabb_not_enclosing", params, [&]() {
        return J().raw("case", w2()).raw("point", vh::jvec(p)).str();
      });
  }
}

// ------------------------------------------------------------------------------------------
// G. intervals: union = componentwise hull, inside closed
// ------------------------------------------------------------------------------------------
template<class S, size_t D> struct IT {
  using T = Eigen::Matrix<S, D, 1>;
  static T make(const std::array<S, 3> & a) {T t; for (size_t j = 0; j < D; ++j) {t[j] = a[j];} return t;}
  static S get(const T & t, size_t j) {return t[j];}
};
template<class S> struct IT<S, 1> {
  using T = S;
  static T make(const std::array<S, 3> & a) {return a[0];}
  static S get(const T & t, size_t) {return t;}
};

template<class S, size_t D>
static void case_interval(vh::Ctx & c, vh::Rng & r)
{
  const char * cat = "interval_union";
  c.cat(cat);
  c.cat(std::string("interval_dim") + std::to_string(D));
  using I = romea::core::Interval<S, D>;
  using H = IT<S, D>;
  int m = (int)r.range(2, 5);
  {
    // long histories: 2^8+k and 2^16+k intervals included one after the other
    int lh = (int)r.range(0, 16383);
    if (lh < 64) {m = 256 + (int)r.range(0, 3); c.cat("interval_history_2p8");} else if (lh == 64) {
      m = 65536 + (int)r.range(0, 3); c.cat("interval_history_2p16");
    }
  }
  bool dy = r.coin(0.5);
  int k = (int)r.range(0, 6);
  Geo g = pick_geo(r);
  std::vector<std::array<S, 3>> los(m), ups(m);
  std::vector<S> pool[3];            // endpoints seen so far (to produce touching / nested intervals)
  for (int i = 0; i < m; ++i) {
    for (size_t j = 0; j < D; ++j) {
      auto draw = [&]() -> S {
          if (!pool[j].empty() && r.coin(0.3)) {return pool[j][r.range(0, pool[j].size() - 1)];}
          if (r.coin(0.08)) {          // values random reals never produce, and the ends of the floating range
            using L = std::numeric_limits<S>;
            static const S SP[] = {(S)0, (S)-0.0, L::denorm_min(), -L::denorm_min(), L::min(), -L::min(), L::max(), -L::max(),
              L::max() / 2, L::lowest() / 2, (S)1, (S)-1, (S)2, (S)1024, (S)-4096};
            c.count("interval_special_endpoint");
            return SP[r.range(0, 14)];
          }
          return dy ? dyadic<S>(r, k, 1024) : (S)(g.off * r.uni(-1, 1) + g.s * r.uni(-1, 1));
        };
      S a = draw(), b = r.coin(0.15) ? a : draw();
      los[i][j] = std::min(a, b); ups[i][j] = std::max(a, b);
      pool[j].push_back(a); pool[j].push_back(b);
    }
  }
  uint64_t hh = vh::hash_addi(0x61, SN<S>::id * 8 + D);
  for (int i = 0; i < m; ++i) {for (size_t j = 0; j < D; ++j) {hh = vh::hash_add(vh::hash_add(hh, los[i][j]), ups[i][j]);}}
  c.distinct(hh, true);
  auto wit = [&]() {
      std::string a = "[";
      for (int i = 0; i < std::min(m, 8); ++i) {
        if (i) {a += ",";}
        a += J().arr("lower", los[i].begin(), los[i].begin() + D).arr("upper", ups[i].begin(), ups[i].begin() + D).str();
      }
      return J().s("cat", cat).s("scalar", SN<S>::name()).f("dim", (int)D).f("number_of_intervals", m)
             .raw("first_intervals", a + "]").str();
    };
  c.sample(cat, wit);

  I acc(H::make(los[0]), H::make(ups[0]));
  std::array<S, 3> tl = los[0], tu = ups[0];
  for (int i = 1; i < m; ++i) {
    acc.include(I(H::make(los[i]), H::make(ups[i])));
    bool ok = true;
    for (size_t j = 0; j < D; ++j) {
      tl[j] = los[i][j] < tl[j] ? los[i][j] : tl[j];
      tu[j] = ups[i][j] > tu[j] ? ups[i][j] : tu[j];
      ok = ok && H::get(acc.lower(), j) == tl[j] && H::get(acc.upper(), j) == tu[j];
    }
    auto params = [&]() {
        return Params{{"scalar", (double)SN<S>::id}, {"dim", (double)D}, {"included", (double)i}, {"intervals", (double)m}};
      };
    auto w2 = [&]() {
        std::array<S, 3> gl{}, gu{};
        for (size_t j = 0; j < D; ++j) {gl[j] = H::get(acc.lower(), j); gu[j] = H::get(acc.upper(), j);}
        return J().raw("case", wit()).f("after_including", i).arr("got_lower", gl.begin(), gl.begin() + D)
               .arr("got_upper", gu.begin(), gu.begin() + D).arr("hull_lower", tl.begin(), tl.begin() + D)
               .arr("hull_upper", tu.begin(), tu.begin() + D).str();
      };
    if (!c.expect("interval.union_is_hull", ok, "interval_union_wrong", params, w2)) {return;}
  }
  // closed containment, asked of the accumulated interval, judged on the true hull
  for (int q = 0; q < 4; ++q) {
    std::array<S, 3> v{};
    bool truth = true, onb = false;
    for (size_t j = 0; j < D; ++j) {
      int mode = (int)r.range(0, 7);
      const S inf = std::numeric_limits<S>::infinity();
      switch (mode) {
        case 0: v[j] = tl[j]; onb = true; break;
        case 1: v[j] = tu[j]; onb = true; break;
        case 2: v[j] = std::nextafter(tl[j], -inf); break;
        case 3: v[j] = std::nextafter(tu[j], inf); break;
        case 4: v[j] = std::nextafter(tl[j], inf); break;
        case 5: v[j] = pool[j][r.range(0, pool[j].size() - 1)]; break;
        case 6: v[j] = (S)((LD)tl[j] + ((LD)tu[j] - (LD)tl[j]) * (LD)r.uni()); break;
        default: {
            LD w = (LD)tl[j] + ((LD)tu[j] - (LD)tl[j] + (LD)g.s) * (LD)r.uni(-1, 2);
            const LD mx = (LD)std::numeric_limits<S>::max();
            v[j] = (S)std::max(-mx, std::min(mx, w));
            break;
          }
      }
      truth = truth && tl[j] <= v[j] && v[j] <= tu[j];
    }
    bool got = acc.inside(H::make(v));
    if (onb && truth) {c.count("interval_inside_on_boundary_checked");}
    c.expect("interval.inside_closed", got == truth, "interval_inside_wrong", [&]() {
        return Params{{"scalar", (double)SN<S>::id}, {"dim", (double)D}, {"expected_inside", truth ? 1.0 : 0.0}};
      }, [&]() {
        return J().raw("case", wit()).arr("value", v.begin(), v.begin() + D).arr("hull_lower", tl.begin(), tl.begin() + D)
               .arr("hull_upper", tu.begin(), tu.begin() + D).boolean("library_inside", got).str();
      });
  }
}

// ------------------------------------------------------------------------------------------
// H/I. point sets
// ------------------------------------------------------------------------------------------
struct SetSpec
{
  int n, octmode, degen;
  int regime = 0;      // 0 ordinary magnitudes, 1 tiny (down to the denormals), 2 huge (up to max/4096), 3 integers, 4 +-pairs
  double s, lo;
  const char * regname() const
  {
    static const char * N[] = {"set_ordinary_magnitudes", "set_tiny_magnitudes", "set_huge_magnitudes", "set_integer_coordinates",
      "set_symmetric_pairs"};
    return N[regime];
  }
  const char * octname() const
  {
    static const char * N[] = {"set_all_negative", "set_all_positive", "set_fixed_mixed_octant", "set_straddling_origin",
      "set_nonpositive_with_zeros", "set_nonnegative_with_zeros"};
    return N[octmode];
  }
};

static int pick_n(vh::Rng & r)
{
  int k = (int)r.range(0, 99);
  if (k < 8) {return 1;}
  if (k < 28) {return (int)r.range(2, 4);}
  if (k < 70) {return (int)r.range(5, 32);}
  if (k < 73) {return 1000;}
  if (k == 73) {return 255 + (int)r.range(0, 4);}          // around 2^8
  return (int)std::min(1000.0, std::floor(r.logu(33, 1001)));
}

// n * nc coordinates, row major (point i, component j)
template<class S>
static SetSpec gen_set(vh::Rng & r, int nc, std::vector<S> & x, int force_oct = -1, int max_n = 1000)
{
  SetSpec sp;
  sp.n = std::min(pick_n(r), max_n);
  int o = (int)r.range(0, 19);
  sp.octmode = o < 6 ? 0 : o < 10 ? 1 : o < 14 ? 2 : o < 17 ? 3 : o < 19 ? 4 : 5;
  if (force_oct >= 0) {sp.octmode = force_oct;}
  sp.s = r.logu(1e-3, 1e4);
  {
    using L = std::numeric_limits<S>;
    int em = (int)r.range(0, 19);
    // the sum of up to 1000 coordinates and the reciprocal of the largest side stay finite up to max/4096
    const double lim = (double)L::max() / 4096;
    if (em == 0) {sp.regime = 1; sp.s = r.logu((double)L::denorm_min() * 8, 1e-3);} else if (em == 1) {
      sp.regime = 2; sp.s = r.coin(0.2) ? lim : r.logu(1e4, lim);
    } else if (em == 2) {sp.regime = 3; sp.s = r.logu(1, 1e6);} else if (em == 3) {sp.regime = 4;}
  }
  static const double LO[] = {0.0, 0.0, 0.5, 0.999, 1 - 1e-6};
  sp.lo = LO[r.range(0, 4)];
  int dg = (int)r.range(0, 19);
  sp.degen = dg == 0 ? 1 : (dg <= 2 ? 2 : 0);
  double sg[4];
  for (int j = 0; j < 4; ++j) {sg[j] = r.sign();}
  if (sp.octmode == 2) {sg[0] = 1; sg[1] = -1;}          // genuinely mixed
  int constj = (int)r.range(0, nc - 1);
  x.resize((size_t)sp.n * nc);
  for (int i = 0; i < sp.n; ++i) {
    for (int j = 0; j < nc; ++j) {
      double m = sp.s * r.uni(sp.lo, 1.0), v;
      switch (sp.octmode) {
        case 0: v = -m; break;
        case 1: v = m; break;
        case 2: v = sg[j] * m; break;
        case 3: v = r.sign() * m; break;
        case 4: v = r.coin(0.3) ? (r.coin() ? 0.0 : -0.0) : -m; break;
        default: v = r.coin(0.3) ? 0.0 : m; break;
      }
      if (sp.regime == 3) {v = std::copysign(std::floor(std::fabs(v)), v);}
      if (i > 0 && (sp.degen == 1 || (sp.degen == 2 && j == constj))) {v = (double)x[j];}
      if (sp.regime == 4 && (i & 1)) {v = -(double)x[(size_t)(i - 1) * nc + j];}      // exact opposite of the previous point
      x[(size_t)i * nc + j] = (S)v;
    }
  }
  return sp;
}

template<class S> struct SetTruth {LD mn[4], mx[4], mean[4], sabs[4], side;};

template<class S>
static SetTruth<S> truth_of(const std::vector<S> & x, int n, int nc, int ncart)
{
  SetTruth<S> t;
  for (int j = 0; j < nc; ++j) {
    LD mn = INFINITY, mx = -INFINITY, sum = 0, sa = 0;
    for (int i = 0; i < n; ++i) {
      LD v = (LD)x[(size_t)i * nc + j];
      if (v < mn) {mn = v;}
      if (v > mx) {mx = v;}
      sum += v; sa += fabsl(v);
    }
    t.mn[j] = mn; t.mx[j] = mx; t.mean[j] = sum / n; t.sabs[j] = sa;
  }
  t.side = 0;
  for (int j = 0; j < ncart; ++j) {t.side = std::max(t.side, t.mx[j] - t.mn[j]);}
  return t;
}

// n-1 sequential additions and one division in S (unit round-off u = eps/2) are off by at most
// n * u * sum|x| / n (first order); the tolerance is four times that, 2 * eps * (n+1)/n * sum|x|,
// so the ratio observed/tolerance stays below ~0.25 by construction
// (+ the absolute error of a quotient that lands in the denormals)
template<class S> static LD mean_tol(LD sabs, int n)
{
  return 2 * epsL<S>() * (LD)(n + 1) / (LD)n * sabs + 8 * (LD)std::numeric_limits<S>::denorm_min();
}
// the reciprocal of the largest side is a normal number of S only for sides within [4/max, max/4]
template<class S> static bool side_has_reciprocal(LD side)
{
  const LD mx = (LD)std::numeric_limits<S>::max();
  return side >= 4 / mx && side <= mx / 4;
}

template<class P> struct PT;
#define C20_PT(T, NAME, ID, HOMOG) \
  template<> struct PT<T> {static const char * name() {return NAME;} static constexpr int id = ID; static constexpr bool homog = HOMOG;};
C20_PT(Eigen::Vector2f, "Vector2f", 0, false)
C20_PT(Eigen::Vector2d, "Vector2d", 1, false)
C20_PT(Eigen::Vector3f, "Vector3f", 2, false)
C20_PT(Eigen::Vector3d, "Vector3d", 3, false)
C20_PT(romea::core::HomogeneousCoordinates2f, "HomogeneousCoordinates2f", 4, true)
C20_PT(romea::core::HomogeneousCoordinates2d, "HomogeneousCoordinates2d", 5, true)
C20_PT(romea::core::HomogeneousCoordinates3f, "HomogeneousCoordinates3f", 6, true)
C20_PT(romea::core::HomogeneousCoordinates3d, "HomogeneousCoordinates3d", 7, true)

template<class S>
static std::string set_json(const char * cat, const char * type, const SetSpec & sp, const std::vector<S> & x, int nc)
{
  size_t show = std::min<size_t>(x.size(), (size_t)nc * 6);
  return J().s("cat", cat).s("type", type).f("n", sp.n).s("octants", sp.octname()).f("degenerate", sp.degen)
         .f("scale_of_coordinates", sp.s).arr("first_points_row_major", x.begin(), x.begin() + show).str();
}

template<class P>
static void case_preconditioner(vh::Ctx & c, vh::Rng & r)
{
  using S = typename P::Scalar;
  constexpr int DIM = romea::core::PointTraits<P>::DIM, SIZE = romea::core::PointTraits<P>::SIZE;
  const char * cat = "pointset_preconditioner";
  c.cat(cat);
  c.cat(std::string("type_") + PT<P>::name());
  std::vector<S> x;
  SetSpec sp = gen_set<S>(r, DIM, x);
  c.cat(sp.octname());
  c.cat(sp.regname());
  if (sp.n == 1) {c.cat("set_single_point");}
  if (sp.n >= 500) {c.cat("set_500_or_more_points");}
  auto fill = [&](romea::core::PointSet<P> & ps, const std::vector<S> & xx, int n) {
      ps.clear();
      for (int i = 0; i < n; ++i) {
        P p;
        for (int j = 0; j < SIZE; ++j) {p(j) = j < DIM ? xx[(size_t)i * DIM + j] : (S)1;}
        ps.push_back(p);
      }
    };
  romea::core::PointSet<P> ps;
  fill(ps, x, sp.n);
  bool history = r.coin(0.5);
  romea::core::PointSetPreconditioner<P> * pre;
  romea::core::PointSetPreconditioner<P> reused;
  std::unique_ptr<romea::core::PointSetPreconditioner<P>> fresh;
  if (history) {
    // the same object computed an unrelated set before
    std::vector<S> y;
    SetSpec sy = gen_set<S>(r, DIM, y, (int)r.range(0, 3));
    romea::core::PointSet<P> other;
    fill(other, y, sy.n);
    reused.compute(other);
    reused.compute(ps);
    pre = &reused;
    c.count("preconditioner_recomputed_on_used_object");
  } else {
    fresh.reset(new romea::core::PointSetPreconditioner<P>(ps));
    pre = fresh.get();
  }
  // truth over all SIZE stored components (w == 1 for the homogeneous types)
  std::vector<S> full((size_t)sp.n * SIZE);
  for (int i = 0; i < sp.n; ++i) {for (int j = 0; j < SIZE; ++j) {full[(size_t)i * SIZE + j] = ps[i](j);}}
  SetTruth<S> t = truth_of<S>(full, sp.n, SIZE, SIZE);
  uint64_t hh = vh::hash_addi(vh::hash_addi(0x81, PT<P>::id), sp.n);
  for (size_t i = 0; i < std::min<size_t>(x.size(), 12); ++i) {hh = vh::hash_add(hh, x[i]);}
  c.distinct(hh, true);
  auto wit = [&]() {return set_json<S>(cat, PT<P>::name(), sp, x, DIM);};
  c.sample(cat, wit);

  const P & gmin = pre->getPointSetMin();
  const P & gmax = pre->getPointSetMax();
  const P & gmean = pre->getPointSetMean();
  const S scale = pre->getScale();
  LD smallest_true_max = INFINITY, largest_true_min = -INFINITY;
  for (int j = 0; j < DIM; ++j) {
    smallest_true_max = std::min(smallest_true_max, t.mx[j]);
    largest_true_min = std::max(largest_true_min, t.mn[j]);
  }
  auto params = [&]() {
      return Params{{"type", (double)PT<P>::id}, {"n", (double)sp.n}, {"octmode", (double)sp.octmode},
        {"history", history ? 1.0 : 0.0}, {"smallest_true_max", (double)smallest_true_max},
        {"largest_true_min", (double)largest_true_min}, {"largest_side", (double)t.side},
        {"magnitude_regime", (double)sp.regime}};
    };
  auto w2 = [&]() {
      return J().raw("case", wit()).raw("got_min", vh::jvec(gmin)).raw("got_max", vh::jvec(gmax))
             .raw("got_mean", vh::jvec(gmean)).f("got_scale", scale).arr("true_min", t.mn, t.mn + SIZE)
             .arr("true_max", t.mx, t.mx + SIZE).arr("true_mean", t.mean, t.mean + SIZE).f("true_largest_side", t.side)
             .boolean("object_reused", history).str();
    };
  bool okmin = true, okmax = true;
  LD worst_mean = 0;
  for (int j = 0; j < SIZE; ++j) {
    okmin = okmin && (LD)gmin(j) == t.mn[j];
    okmax = okmax && (LD)gmax(j) == t.mx[j];
    LD tol = mean_tol<S>(t.sabs[j], sp.n), e = fabsl((LD)gmean(j) - t.mean[j]);
    LD ratio = tol > 0 ? e / tol : (e == 0 ? 0 : INFINITY);
    if (!(ratio <= worst_mean)) {worst_mean = ratio;}
  }
  c.expect("pointset.min_is_true_minimum", okmin, "pointset_min_wrong", params, w2);
  c.expect("pointset.max_is_true_maximum", okmax, "pointset_max_wrong", params, w2);
  c.expect_le("pointset.mean_vs_centroid", worst_mean, 1.0L, "pointset_mean_wrong", params, w2);
  if (t.side > 0 && side_has_reciprocal<S>(t.side)) {
    c.expect_le("pointset.scale_times_largest_side", fabsl((LD)scale * t.side - 1), 4 * epsL<S>(), "pointset_scale_wrong",
      params, w2);
  } else if (t.side > 0) {
    // the reciprocal of a (nearly) denormal side overflows: not a number of S, nothing is demanded
    c.skip("pointset.scale:reciprocal_not_representable");
  } else {
    // zero-size set: the reciprocal of zero; an infinite scale is accepted, nothing is demanded
    c.skip("pointset.scale:zero_size_set");
    if (std::isinf(scale) && scale > 0) {c.count("zero_size_set_scale_infinite");}
  }
}

// CONT: 0 VectorOfEigenVector, 1 DequeOfEigenVector, 2 ListOfEigenVector
template<class A, int CONT, bool MINMAX>
static void case_container(vh::Ctx & c, vh::Rng & r, const char * tname)
{
  using S = typename A::Scalar;
  using C = typename std::conditional<CONT == 0, romea::core::VectorOfEigenVector<A>,
      typename std::conditional<CONT == 1, romea::core::DequeOfEigenVector<A>, romea::core::ListOfEigenVector<A>>::type>::type;
  constexpr int NC = A::RowsAtCompileTime;
  static const char * CNAME[] = {"VectorOfEigenVector", "DequeOfEigenVector", "ListOfEigenVector"};
  const char * cat = MINMAX ? "container_of_arrays_min_max_mean" : "container_of_matrices_mean";
  c.cat(cat);
  c.cat(std::string("container_") + CNAME[CONT]);
  std::vector<S> x;
  SetSpec sp = gen_set<S>(r, NC, x);
  c.cat(sp.octname());
  c.cat(sp.regname());
  C pts;
  for (int i = 0; i < sp.n; ++i) {
    A a;
    for (int j = 0; j < NC; ++j) {a(j) = x[(size_t)i * NC + j];}
    pts.push_back(a);
  }
  SetTruth<S> t = truth_of<S>(x, sp.n, NC, NC);
  uint64_t hh = vh::hash_addi(vh::hash_addi(vh::hash_addi(0x91, CONT), NC * 2 + SN<S>::id + (MINMAX ? 100 : 0)), sp.n);
  for (size_t i = 0; i < std::min<size_t>(x.size(), 12); ++i) {hh = vh::hash_add(hh, x[i]);}
  c.distinct(hh, true);
  std::string tn = std::string(CNAME[CONT]) + "<" + tname + ">";
  auto wit = [&]() {return set_json<S>(cat, tn.c_str(), sp, x, NC);};
  c.sample(cat, wit);
  LD smallest_true_max = INFINITY, largest_true_min = -INFINITY;
  for (int j = 0; j < NC; ++j) {
    smallest_true_max = std::min(smallest_true_max, t.mx[j]);
    largest_true_min = std::max(largest_true_min, t.mn[j]);
  }
  auto params = [&]() {
      return Params{{"scalar", (double)SN<S>::id}, {"components", (double)NC}, {"container", (double)CONT},
        {"n", (double)sp.n}, {"octmode", (double)sp.octmode}, {"smallest_true_max", (double)smallest_true_max},
        {"largest_true_min", (double)largest_true_min}};
    };
  A gmean = romea::core::mean(pts);
  A gmin = A::Zero(), gmax = A::Zero();
  bool okmin = true, okmax = true;
  if constexpr (MINMAX) {
    gmin = romea::core::min(pts);
    gmax = romea::core::max(pts);
  }
  if (sp.n <= 8 || r.coin(0.05)) {
    // the same questions asked again, of a temporary copy and of the container itself, give the same answers, and
    // the container (taken by const reference) still holds the points it was given
    bool same = true;
    A m2 = romea::core::mean(C(pts)), m3 = romea::core::mean(pts);
    for (int j = 0; j < NC; ++j) {same = same && m2(j) == gmean(j) && m3(j) == gmean(j);}
    if constexpr (MINMAX) {
      A a2 = romea::core::min(C(pts)), b2 = romea::core::max(C(pts)), a3 = romea::core::min(pts), b3 = romea::core::max(pts);
      for (int j = 0; j < NC; ++j) {same = same && a2(j) == gmin(j) && b2(j) == gmax(j) && a3(j) == gmin(j) && b3(j) == gmax(j);}
    }
    bool untouched = (int)pts.size() == sp.n;
    int i = 0;
    for (const A & a : pts) {
      for (int j = 0; j < NC && untouched; ++j) {untouched = a(j) == x[(size_t)i * NC + j];}
      ++i;
    }
    c.expect("container.repeatable_and_input_untouched", same && untouched, "result_unstable", [&]() {
        return Params{{"scalar", (double)SN<S>::id}, {"components", (double)NC}, {"container", (double)CONT}, {"n", (double)sp.n},
          {"input_untouched", untouched ? 1.0 : 0.0}};
      }, [&]() {return set_json<S>(cat, tname, sp, x, NC);});
  }
  auto w2 = [&]() {
      return J().raw("case", wit()).raw("got_min", vh::jvec(gmin)).raw("got_max", vh::jvec(gmax))
             .raw("got_mean", vh::jvec(gmean)).arr("true_min", t.mn, t.mn + NC).arr("true_max", t.mx, t.mx + NC)
             .arr("true_mean", t.mean, t.mean + NC).str();
    };
  LD worst_mean = 0;
  for (int j = 0; j < NC; ++j) {
    if (MINMAX) {
      okmin = okmin && (LD)gmin(j) == t.mn[j];
      okmax = okmax && (LD)gmax(j) == t.mx[j];
    }
    LD tol = mean_tol<S>(t.sabs[j], sp.n), e = fabsl((LD)gmean(j) - t.mean[j]);
    LD ratio = tol > 0 ? e / tol : (e == 0 ? 0 : INFINITY);
    if (!(ratio <= worst_mean)) {worst_mean = ratio;}
  }
  if (MINMAX) {
    c.expect("container.min_is_true_minimum", okmin, "container_min_wrong", params, w2);
    c.expect("container.max_is_true_maximum", okmax, "container_max_wrong", params, w2);
  }
  c.expect_le(MINMAX ? "container.mean_of_arrays" : "container.mean_of_matrices", worst_mean, 1.0L, "container_mean_wrong",
    params, w2);
}

// ------------------------------------------------------------------------------------------
// J. object semantics of the boxes and intervals: results bound by reference stay what they were,
// copies / moved-to objects behave as the original and survive its overwriting or destruction,
// arguments that alias the object's own members are read before anything is written, temporaries
// give the same answers, sibling objects do not interfere.  Expected values are those of the first
// observation, itself checked against the definition.
// ------------------------------------------------------------------------------------------
template<class S, int D>
static void case_box_semantics(vh::Ctx & c, vh::Rng & r)
{
  using V = Eigen::Matrix<S, D, 1>;
  using M = Eigen::Matrix<S, D, D>;
  using OBB = romea::core::OrientedBoundingBox<S, D>;
  using AABB = romea::core::AxisAlignedBoundingBox<S, D>;
  using IV = romea::core::Interval<S, D>;
  const char * cat = "box_object_semantics";
  c.cat(cat);
  bool dy = r.coin(0.6);
  V ce, h, ce2, h2;
  int k = (int)r.range(0, 6);
  Rot<S, D> rot = GenRot<S, D>::go(r, dy), rot2 = GenRot<S, D>::go(r, r.coin());
  if (dy) {gen_box_dyadic<S, D>(r, k, ce, h); gen_box_dyadic<S, D>(r, k, ce2, h2);} else {
    Geo g = pick_geo(r); gen_box_generic<S, D>(r, g, ce, h); gen_box_generic<S, D>(r, g, ce2, h2);
  }
  constexpr int NQ = 4;
  V Q[NQ];
  for (int q = 0; q < NQ; ++q) {
    LD loc[D];
    for (int j = 0; j < D; ++j) {
      int m = (int)r.range(0, 5);
      LD sg = r.sign();
      loc[j] = m <= 1 ? sg * (LD)h[j] : m == 2 ? 0 : m == 3 ? (LD)h[j] * (LD)r.uni(-1, 1) :
        sg * ((LD)h[j] * (LD)r.uni(1, 2) + (dy ? (LD)std::ldexp(1.0, -k) : (LD)h[j] + 1e-3L));
      if (dy && m == 3) {loc[j] = sg * (LD)std::floor(r.uni() * ((double)h[j] * std::ldexp(1.0, k) + 1)) * (LD)std::ldexp(1.0, -k);}
      if (dy && m >= 4) {loc[j] = sg * ((LD)h[j] + (LD)r.range(1, 40) * (LD)std::ldexp(1.0, -k));}
    }
    for (int i = 0; i < D; ++i) {
      LD v = (LD)ce[i];
      for (int j = 0; j < D; ++j) {v += (LD)rot.R(i, j) * loc[j];}
      Q[q][i] = (S)v;
    }
  }
  c.distinct(hvec(hvec(hvec(hvec(vh::hash_addi(0x51, SN<S>::id * 8 + D), ce), h), Q[0]), rot.R), true);
  auto wit = [&]() {return box_json<S, D>(cat, ce, h, &Q[0], &rot.R);};
  c.sample(cat, wit);
  std::string what;      // first thing that went wrong in the group being checked
  auto params = [&]() {return Params{{"scalar", (double)SN<S>::id}, {"dim", (double)D}, {"dyadic", dy ? 1.0 : 0.0},
                         {"rotation_mode", (double)rot.mode}};};
  auto w2 = [&]() {return J().raw("case", wit()).s("what", what).raw("other_centre", vh::jvec(ce2)).raw("other_half", vh::jvec(h2)).str();};
  auto note = [&](bool ok, const char * msg) {if (!ok && what.empty()) {what = msg;} return ok;};
  auto eqv = [](const V & a, const V & b) {return (a.array() == b.array()).all();};
  auto eqm = [](const M & a, const M & b) {return (a.array() == b.array()).all();};

  OBB a(ce, h, rot.R);
  AABB b(ce, h);
  // ---- getters, bound as the signature allows
  const V & rc = a.getCenterPosition();
  const V & rh = a.getHalfWidthExtents();
  const M & rR = a.getRotationMatrix();
  const V & bc = b.getCenterPosition();
  const V & bh = b.getHalfWidthExtents();
  what.clear();
  bool g0 = note(eqv(rc, ce), "obb centre") & note(eqv(rh, h), "obb half extents") & note(eqm(rR, rot.R), "obb rotation") &
    note(eqv(bc, ce), "aabb centre") & note(eqv(bh, h), "aabb half extents");
  c.expect("semantics.box.getters_return_what_was_given", g0, "box_getter_wrong", params, w2);

  // ---- first observations (checked against the definition where it is decidable)
  bool o1[NQ], p1[NQ];
  for (int q = 0; q < NQ; ++q) {
    o1[q] = a.isInside(Q[q]); p1[q] = b.isInside(Q[q]);
    bool ex; LD cl;
    Verdict to = obb_truth<S, D>(ce, h, rot.R, rot.perm, Q[q], ex, cl);
    if (to != V_AMBIG) {
      what = "oriented containment of query " + std::to_string(q);
      c.expect("semantics.box.first_observation", o1[q] == (to == V_IN), "obb_inside_wrong", params, w2);
    }
    Verdict ta = aabb_truth<S, D>(ce, h, Q[q], ex, cl);
    if (ta != V_AMBIG) {
      what = "axis-aligned containment of query " + std::to_string(q);
      c.expect("semantics.box.first_observation", p1[q] == (ta == V_IN), "aabb_inside_wrong", params, w2);
    }
  }
  const IV iv1 = b.toInterval();
  const AABB e1 = a.toAxisAlignedBoundingBox();
  const V & ivl = iv1.lower();
  const V & ivu = iv1.upper();
  const V & e1c = e1.getCenterPosition();
  const V & e1h = e1.getHalfWidthExtents();
  const V ivl0 = ivl, ivu0 = ivu, e1c0 = e1c, e1h0 = e1h;
  auto same_obb = [&](const OBB & x, const char * who) {
      bool ok = note(eqv(x.getCenterPosition(), ce), who) & note(eqv(x.getHalfWidthExtents(), h), who) &
        note(eqm(x.getRotationMatrix(), rot.R), who);
      for (int q = 0; q < NQ; ++q) {ok = ok & note(x.isInside(Q[q]) == o1[q], who);}
      AABB e = x.toAxisAlignedBoundingBox();
      return ok & note(eqv(e.getCenterPosition(), e1c0), who) & note(eqv(e.getHalfWidthExtents(), e1h0), who);
    };
  auto same_aabb = [&](const AABB & x, const char * who) {
      bool ok = note(eqv(x.getCenterPosition(), ce), who) & note(eqv(x.getHalfWidthExtents(), h), who);
      for (int q = 0; q < NQ; ++q) {ok = ok & note(x.isInside(Q[q]) == p1[q], who);}
      IV i2 = x.toInterval();
      return ok & note(eqv(i2.lower(), ivl0), who) & note(eqv(i2.upper(), ivu0), who);
    };

  // ---- sibling objects of the same classes at work in between
  OBB s(ce2, h2, rot2.R);
  AABB sb(ce2, h2);
  bool so[NQ], sp[NQ];
  for (int q = 0; q < NQ; ++q) {so[q] = s.isInside(Q[q]); sp[q] = sb.isInside(Q[q]);}
  const AABB se = s.toAxisAlignedBoundingBox();
  const IV si = sb.toInterval();
  {
    std::unique_ptr<OBB> hs(new OBB(ce2, h, rot.R));
    std::unique_ptr<AABB> hb(new AABB(si));
    (void)hs->isInside(ce); (void)hb->isInside(ce2); (void)hs->toAxisAlignedBoundingBox(); (void)hb->toInterval();
    IV acc = si; acc.include(iv1); (void)acc.inside(ce);
  }
  auto same_sibling = [&](const OBB & x, const char * who) {
      bool ok = note(eqv(x.getCenterPosition(), ce2), who) & note(eqv(x.getHalfWidthExtents(), h2), who) &
        note(eqm(x.getRotationMatrix(), rot2.R), who);
      for (int q = 0; q < NQ; ++q) {ok = ok & note(x.isInside(Q[q]) == so[q], who);}
      return ok;
    };

  // ---- value semantics
  what.clear();
  bool cp = true;
  {
    OBB cc(a);                                   cp &= same_obb(cc, "copy-constructed obb");
    OBB ca(s); ca = a;                           cp &= same_obb(ca, "copy-assigned obb");
    OBB t1(a); OBB cm(std::move(t1));            cp &= same_obb(cm, "move-constructed obb");
    OBB t2(a); OBB cma(s); cma = std::move(t2);  cp &= same_obb(cma, "move-assigned obb");
    OBB & self = cc; cc = self;                  cp &= same_obb(cc, "self-assigned obb");
    cp &= same_obb(a, "obb after its copies were used");
    AABB bcc(b);                                 cp &= same_aabb(bcc, "copy-constructed aabb");
    AABB bca(sb); bca = b;                       cp &= same_aabb(bca, "copy-assigned aabb");
    AABB t3(b); AABB bcm(std::move(t3));         cp &= same_aabb(bcm, "move-constructed aabb");
    AABB t4(b); AABB bcma(sb); bcma = std::move(t4); cp &= same_aabb(bcma, "move-assigned aabb");
    AABB & bself = bcc; bcc = bself;             cp &= same_aabb(bcc, "self-assigned aabb");
    cp &= same_aabb(b, "aabb after its copies were used");
    // the source is overwritten / destroyed, the copy lives on
    OBB src(a); OBB cpy(src); src = s;
    cp &= same_obb(cpy, "obb copy after its source was overwritten") & same_sibling(src, "overwritten obb source");
    std::unique_ptr<OBB> hsrc(new OBB(a)); OBB from_heap(*hsrc); hsrc.reset();
    cp &= same_obb(from_heap, "obb copy after its source was destroyed");
    std::unique_ptr<AABB> hbsrc(new AABB(b)); AABB b_from_heap(*hbsrc); hbsrc.reset();
    cp &= same_aabb(b_from_heap, "aabb copy after its source was destroyed");
    // using and overwriting a copy leaves the source alone
    OBB cpy2(a); cpy2 = s; (void)cpy2.isInside(Q[0]);
    cp &= same_obb(a, "obb after a copy of it was overwritten");
    IV ic(iv1); IV ia(si); ia = iv1; IV it(iv1); IV im(std::move(it)); IV & iself = ic; ic = iself;
    cp &= note(eqv(ic.lower(), ivl0) && eqv(ic.upper(), ivu0), "copied interval") &
      note(eqv(ia.lower(), ivl0) && eqv(ia.upper(), ivu0), "copy-assigned interval") &
      note(eqv(im.lower(), ivl0) && eqv(im.upper(), ivu0), "moved interval");
    ia.include(si);
    cp &= note(eqv(iv1.lower(), ivl0) && eqv(iv1.upper(), ivu0), "interval after a copy of it was widened");
  }
  c.expect("semantics.box.copies_behave_as_the_original", cp, "copy_differs", params, w2);

  // ---- default-constructed objects are the zero box at the origin (identity rotation) / the whole finite range,
  //      and take any value by assignment
  what.clear();
  bool df = true;
  {
    const V zero = V::Zero();
    AABB d;
    OBB od;
    IV di;
    df &= note(eqv(d.getCenterPosition(), zero) && eqv(d.getHalfWidthExtents(), zero), "default aabb is not the zero box at the origin");
    df &= note(eqv(od.getCenterPosition(), zero) && eqv(od.getHalfWidthExtents(), zero) && eqm(od.getRotationMatrix(), M::Identity()),
        "default obb is not the zero box at the origin with the identity rotation");
    df &= note(d.isInside(zero) && od.isInside(zero), "default box does not contain the origin");
    for (int q = 0; q < NQ; ++q) {
      bool at_origin = (Q[q].array() == 0).all();
      df &= note(d.isInside(Q[q]) == at_origin && od.isInside(Q[q]) == at_origin, "default box contains a point other than the origin");
    }
    IV dz = d.toInterval();
    AABB de = od.toAxisAlignedBoundingBox();
    df &= note(eqv(dz.lower(), zero) && eqv(dz.upper(), zero) && eqv(de.getCenterPosition(), zero) && eqv(de.getHalfWidthExtents(), zero),
        "interval / enclosing box of a default box");
    for (int q = 0; q < NQ; ++q) {df &= note(di.inside(Q[q]) && di.inside(ce), "default interval does not contain a finite value");}
    di.include(iv1);
    df &= note(eqv(di.lower(), V::Constant(-std::numeric_limits<S>::max())) && eqv(di.upper(), V::Constant(std::numeric_limits<S>::max())),
        "default interval changed by including a finite interval");
    d = b; od = a; di = iv1;
    df &= same_aabb(d, "default aabb after assignment") & same_obb(od, "default obb after assignment") &
      note(eqv(di.lower(), ivl0) && eqv(di.upper(), ivu0), "default interval after assignment");
  }
  c.expect("semantics.box.default_constructed", df, "default_constructed_wrong", params, w2);

  // ---- arguments aliasing the object's own state; expected from the values at call time
  what.clear();
  bool al = true;
  {
    OBB x(a);
    al &= note(x.isInside(x.getCenterPosition()), "obb.isInside(obb.getCenterPosition())");   // |0| <= h, h >= 0
    bool ex; LD cl;
    Verdict th = obb_truth<S, D>(ce, h, rot.R, rot.perm, h, ex, cl);
    if (th != V_AMBIG) {al &= note(x.isInside(x.getHalfWidthExtents()) == (th == V_IN), "obb.isInside(obb.getHalfWidthExtents())");}
    AABB y(b);
    al &= note(y.isInside(y.getCenterPosition()), "aabb.isInside(aabb.getCenterPosition())");
    Verdict tb = aabb_truth<S, D>(ce, h, h, ex, cl);
    if (tb != V_AMBIG) {al &= note(y.isInside(y.getHalfWidthExtents()) == (tb == V_IN), "aabb.isInside(aabb.getHalfWidthExtents())");}
    AABB same(h, h);                   // one object for both parameters
    al &= note(eqv(same.getCenterPosition(), h) && eqv(same.getHalfWidthExtents(), h), "AABB(v, v)");
    OBB rebuilt(x.getCenterPosition(), x.getHalfWidthExtents(), x.getRotationMatrix());
    al &= same_obb(rebuilt, "obb built from another's getters");
    x = OBB(x.getCenterPosition(), x.getHalfWidthExtents(), x.getRotationMatrix());
    al &= same_obb(x, "obb assigned from a box built from its own getters");
    y = AABB(y.getCenterPosition(), y.getHalfWidthExtents());
    al &= same_aabb(y, "aabb assigned from a box built from its own getters");
    if (dy) {y = AABB(y.toInterval()); al &= same_aabb(y, "aabb rebuilt from its own interval (exact on the grid)");}
    IV i(iv1);
    i.include(i);
    al &= note(eqv(i.lower(), ivl0) && eqv(i.upper(), ivu0), "interval.include(itself)");
    al &= note(i.inside(i.lower()) && i.inside(i.upper()), "interval.inside(its own lower()/upper())");
    i.include(IV(i.upper(), i.upper())); i.include(IV(i.lower(), i.lower()));
    al &= note(eqv(i.lower(), ivl0) && eqv(i.upper(), ivu0), "interval.include(Interval(own upper, own upper))");
    i = IV(i.lower(), i.upper());
    al &= note(eqv(i.lower(), ivl0) && eqv(i.upper(), ivu0), "interval = Interval(own lower, own upper)");
  }
  c.expect("semantics.box.aliased_arguments", al, "aliasing_wrong", params, w2);

  // ---- temporaries everywhere a reference is taken
  what.clear();
  bool tm = true;
  for (int q = 0; q < NQ; ++q) {
    tm &= note(a.isInside(V(Q[q])) == o1[q], "obb.isInside(temporary)") & note(b.isInside(V(Q[q])) == p1[q], "aabb.isInside(temporary)");
    tm &= note(OBB(V(ce), V(h), M(rot.R)).isInside(V(Q[q])) == o1[q], "temporary obb of temporaries") &
      note(AABB(V(ce), V(h)).isInside(V(Q[q])) == p1[q], "temporary aabb of temporaries");
  }
  {
    IV t5(si); IV acc(iv1); acc.include(std::move(t5));
    IV acc2(iv1); acc2.include(si);
    tm &= note(eqv(acc.lower(), acc2.lower()) && eqv(acc.upper(), acc2.upper()), "include(std::move(interval))");
    AABB viat = AABB(IV(V(ivl0), V(ivu0)));
    AABB vial(iv1);
    tm &= note(eqv(viat.getCenterPosition(), vial.getCenterPosition()) && eqv(viat.getHalfWidthExtents(), vial.getHalfWidthExtents()),
        "AABB(temporary interval of temporaries)");
    tm &= note(IV(V(ivl0), V(ivu0)).inside(V(ce)) == iv1.inside(ce), "temporary interval.inside(temporary)");
  }
  c.expect("semantics.box.temporaries_give_the_same_answers", tm, "value_category_differs", params, w2);

  // ---- at the end: everything bound at the beginning is what it was, results repeat
  what.clear();
  bool st = note(eqv(rc, ce) && eqv(rh, h) && eqm(rR, rot.R) && eqv(bc, ce) && eqv(bh, h), "references from the getters") &
    note(eqv(ivl, ivl0) && eqv(ivu, ivu0), "interval returned by toInterval()") &
    note(eqv(e1c, e1c0) && eqv(e1h, e1h0), "box returned by toAxisAlignedBoundingBox()") &
    same_obb(a, "obb at the end") & same_aabb(b, "aabb at the end") & same_sibling(s, "sibling obb at the end");
  for (int q = 0; q < NQ; ++q) {st &= note(sb.isInside(Q[q]) == sp[q], "sibling aabb at the end");}
  st &= note(eqv(se.getHalfWidthExtents(), s.toAxisAlignedBoundingBox().getHalfWidthExtents()), "sibling enclosing box");
  c.expect("semantics.box.results_stable", st, "result_unstable", params, w2);
}

// ------------------------------------------------------------------------------------------
// K. the same for the preconditioner, plus long histories of compute() on one object
// ------------------------------------------------------------------------------------------
template<class P>
static bool precond_matches(
  const romea::core::PointSetPreconditioner<P> & pre, const SetTruth<typename P::Scalar> & t, int n, std::string & why)
{
  using S = typename P::Scalar;
  constexpr int SIZE = romea::core::PointTraits<P>::SIZE;
  for (int j = 0; j < SIZE; ++j) {
    if (!((LD)pre.getPointSetMin()(j) == t.mn[j])) {why = "minimum"; return false;}
    if (!((LD)pre.getPointSetMax()(j) == t.mx[j])) {why = "maximum"; return false;}
    if (!(fabsl((LD)pre.getPointSetMean()(j) - t.mean[j]) <= mean_tol<S>(t.sabs[j], n))) {why = "mean"; return false;}
  }
  if (t.side > 0 && side_has_reciprocal<S>(t.side) && !(fabsl((LD)pre.getScale() * t.side - 1) <= 4 * epsL<S>())) {
    why = "scale"; return false;
  }
  return true;
}

template<class P>
static void case_set_semantics(vh::Ctx & c, vh::Rng & r)
{
  using S = typename P::Scalar;
  using Pre = romea::core::PointSetPreconditioner<P>;
  using PS = romea::core::PointSet<P>;
  constexpr int DIM = romea::core::PointTraits<P>::DIM, SIZE = romea::core::PointTraits<P>::SIZE;
  const char * cat = "preconditioner_object_semantics";
  c.cat(cat);
  c.cat(std::string("type_") + PT<P>::name());
  std::vector<S> xa, xb;
  SetSpec sa = gen_set<S>(r, DIM, xa, -1, 16), sb = gen_set<S>(r, DIM, xb, -1, 16);   // cheap sets: the objects are under test
  int hist = 0;
  {
    int lh = (int)r.range(0, 4095);
    if (lh < 96) {hist = 256 + (int)r.range(0, 3); c.cat("preconditioner_history_2p8");} else if (lh == 96) {
      hist = 65536 + (int)r.range(0, 3); c.cat("preconditioner_history_2p16");
    }
  }
  if (hist) {sa.n = std::min(sa.n, 3); sb.n = std::min(sb.n, 3);}
  auto fill = [&](PS & ps, const std::vector<S> & xx, int n) {
      ps.clear();
      for (int i = 0; i < n; ++i) {
        P p;
        for (int j = 0; j < SIZE; ++j) {p(j) = j < DIM ? xx[(size_t)i * DIM + j] : (S)1;}
        ps.push_back(p);
      }
    };
  auto truth = [&](const PS & ps) {
      std::vector<S> full(ps.size() * SIZE);
      for (size_t i = 0; i < ps.size(); ++i) {for (int j = 0; j < SIZE; ++j) {full[i * SIZE + j] = ps[i](j);}}
      return truth_of<S>(full, (int)ps.size(), SIZE, SIZE);
    };
  PS A, B;
  fill(A, xa, sa.n); fill(B, xb, sb.n);
  SetTruth<S> tA = truth(A), tB = truth(B);
  uint64_t hh = vh::hash_addi(vh::hash_addi(vh::hash_addi(0x52, PT<P>::id), sa.n), sb.n);
  for (size_t i = 0; i < std::min<size_t>(xa.size(), 8); ++i) {hh = vh::hash_add(hh, xa[i]);}
  for (size_t i = 0; i < std::min<size_t>(xb.size(), 8); ++i) {hh = vh::hash_add(hh, xb[i]);}
  c.distinct(hh, true);
  auto wit = [&]() {return set_json<S>(cat, PT<P>::name(), sa, xa, DIM);};
  c.sample(cat, wit);
  std::string what, why;
  auto params = [&]() {return Params{{"type", (double)PT<P>::id}, {"n", (double)sa.n}, {"n_other", (double)sb.n},
                         {"history", (double)hist}, {"magnitude_regime", (double)sa.regime}};};
  auto w2 = [&]() {
      return J().raw("case", wit()).s("what", what).s("quantity", why).raw("other_set", set_json<S>(cat, PT<P>::name(), sb, xb, DIM)).str();
    };
  auto note = [&](bool ok, const char * msg) {if (!ok && what.empty()) {what = msg;} return ok;};
  auto eqp = [](const P & a, const P & b) {return (a.array() == b.array()).all();};

  Pre pre(A);
  const P & rmin = pre.getPointSetMin();
  const P & rmax = pre.getPointSetMax();
  const P & rmean = pre.getPointSetMean();
  const S & rscale = pre.getScale();
  const auto & rtr = pre.getTranslation();
  const P min0 = rmin, max0 = rmax, mean0 = rmean;
  const S scale0 = rscale;
  const typename Pre::TranslationVector tr0 = rtr;
  auto sameS = [](S a, S b) {return a == b || (std::isnan(a) && std::isnan(b));};
  auto sameTr = [&](const typename Pre::TranslationVector & a, const typename Pre::TranslationVector & b) {
      bool ok = true;
      for (int j = 0; j < DIM; ++j) {ok = ok && sameS(a(j), b(j));}
      return ok;
    };
  auto same_as_first = [&](const Pre & x, const char * who) {
      return note(eqp(x.getPointSetMin(), min0) && eqp(x.getPointSetMax(), max0) && eqp(x.getPointSetMean(), mean0) &&
               sameS(x.getScale(), scale0) && sameTr(x.getTranslation(), tr0), who);
    };
  what = "first observation";
  c.expect("semantics.set.first_observation", precond_matches<P>(pre, tA, sa.n, why), "pointset_extent_wrong", params, w2);

  // sibling objects at work
  {
    Pre sib(B); sib.compute(A); sib.compute(B);
    std::unique_ptr<Pre> hp(new Pre(A)); hp->compute(B);
  }
  what.clear(); why.clear();
  bool cp = true;
  {
    Pre other(B);
    Pre cc(pre);                                     cp &= same_as_first(cc, "copy-constructed");
    Pre ca(other); ca = pre;                         cp &= same_as_first(ca, "copy-assigned");
    Pre t1(pre); Pre cm(std::move(t1));              cp &= same_as_first(cm, "move-constructed");
    Pre t2(pre); Pre cma(other); cma = std::move(t2); cp &= same_as_first(cma, "move-assigned");
    Pre & self = cc; cc = self;                      cp &= same_as_first(cc, "self-assigned");
    Pre src(pre); Pre cpy(src); src.compute(B);      // the source moves on to another set
    cp &= same_as_first(cpy, "copy after its source computed another set");
    cp &= note(precond_matches<P>(src, tB, sb.n, why), "source recomputed on another set");
    cpy.compute(B);                                  // the copy is as good as a fresh object
    cp &= note(precond_matches<P>(cpy, tB, sb.n, why), "copy recomputed on another set");
    std::unique_ptr<Pre> hsrc(new Pre(pre)); Pre from_heap(*hsrc); hsrc.reset();
    cp &= same_as_first(from_heap, "copy after its source was destroyed");
    cp &= same_as_first(pre, "original after its copies were used and recomputed");
  }
  c.expect("semantics.set.copies_behave_as_the_original", cp, "copy_differs", params, w2);

  // the object's own results fed back as points (no copy in between); expected from the values
  what.clear(); why.clear();
  {
    Pre x(pre);
    PS fed;
    fed.push_back(x.getPointSetMin()); fed.push_back(x.getPointSetMax()); fed.push_back(x.getPointSetMean());
    fed.push_back(fed[0]);
    SetTruth<S> tf = truth(fed);
    x.compute(fed);
    bool al = note(precond_matches<P>(x, tf, (int)fed.size(), why), "compute() on a set made of the object's own min/max/mean");
    // temporaries
    Pre y{PS(A)};
    al &= same_as_first(y, "constructed from a temporary point set");
    y.compute(PS(B));
    al &= note(precond_matches<P>(y, tB, sb.n, why), "compute(temporary point set)");
    c.expect("semantics.set.aliased_and_temporary_arguments", al, "aliasing_wrong", params, w2);
  }

  // long history of compute() on one object, alternating the two sets
  if (hist) {
    Pre x;
    for (int i = 0; i < hist; ++i) {x.compute((i & 1) ? B : A);}
    what = "after a long history of compute()"; why.clear();
    bool lastB = ((hist - 1) & 1) != 0;
    c.expect("semantics.set.long_history", precond_matches<P>(x, lastB ? tB : tA, lastB ? sb.n : sa.n, why), "pointset_extent_wrong",
      params, w2);
  }

  what.clear(); why.clear();
  bool st = note(eqp(rmin, min0) && eqp(rmax, max0) && eqp(rmean, mean0) && sameS(rscale, scale0) && sameTr(rtr, tr0),
      "references from the getters at the end") & same_as_first(pre, "original at the end");
  bool untouched = (int)A.size() == sa.n;
  for (int i = 0; i < sa.n && untouched; ++i) {for (int j = 0; j < DIM; ++j) {untouched = untouched && A[i](j) == xa[(size_t)i * DIM + j];}}
  st &= note(untouched, "the point set handed to compute()");
  c.expect("semantics.set.results_stable", st, "result_unstable", params, w2);
}

// ------------------------------------------------------------------------------------------
// dispatch
// ------------------------------------------------------------------------------------------
#define C20_DISPATCH_SD(CALL) \
  switch (sd) { \
    case 0: CALL(float, 2); break; \
    case 1: CALL(float, 3); break; \
    case 2: CALL(double, 2); break; \
    default: CALL(double, 3); break; \
  }

static void one_case(vh::Ctx & c, uint64_t idx)
{
  vh::Rng r(c.seed, idx);
  int k = (int)r.range(0, 24);
  int sd = (int)r.range(0, 3);
  c.cat(sd < 2 ? "scalar_float" : "scalar_double");
  if (k == 24) {
    int hom = (int)r.range(0, 1);
    switch (sd * 2 + hom) {
      case 0: case_set_semantics<Eigen::Vector2f>(c, r); break;
      case 1: case_set_semantics<romea::core::HomogeneousCoordinates2f>(c, r); break;
      case 2: case_set_semantics<Eigen::Vector3f>(c, r); break;
      case 3: case_set_semantics<romea::core::HomogeneousCoordinates3f>(c, r); break;
      case 4: case_set_semantics<Eigen::Vector2d>(c, r); break;
      case 5: case_set_semantics<romea::core::HomogeneousCoordinates2d>(c, r); break;
      case 6: case_set_semantics<Eigen::Vector3d>(c, r); break;
      default: case_set_semantics<romea::core::HomogeneousCoordinates3d>(c, r); break;
    }
  } else if (k == 23) {
#define CALL(S, D) case_box_semantics<S, D>(c, r)
    C20_DISPATCH_SD(CALL)
#undef CALL
  } else if (k >= 20) {
    bool oriented = r.coin(0.6);
    int regime = k == 22 ? 2 : 1;
#define CALL(S, D) case_tiny_box<S, D>(c, r, oriented, regime)
    C20_DISPATCH_SD(CALL)
#undef CALL
  } else if (k == 0) {
#define CALL(S, D) case_aabb_interval<S, D>(c, r)
    C20_DISPATCH_SD(CALL)
#undef CALL
  } else if (k <= 2) {
#define CALL(S, D) case_aabb_inside<S, D>(c, r, true)
    C20_DISPATCH_SD(CALL)
#undef CALL
  } else if (k <= 4) {
#define CALL(S, D) case_aabb_inside<S, D>(c, r, false)
    C20_DISPATCH_SD(CALL)
#undef CALL
  } else if (k <= 6) {
#define CALL(S, D) case_obb_inside<S, D>(c, r, true)
    C20_DISPATCH_SD(CALL)
#undef CALL
  } else if (k <= 9) {
#define CALL(S, D) case_obb_inside<S, D>(c, r, false)
    C20_DISPATCH_SD(CALL)
#undef CALL
  } else if (k <= 12) {
#define CALL(S, D) case_obb_to_aabb<S, D>(c, r)
    C20_DISPATCH_SD(CALL)
#undef CALL
  } else if (k <= 14) {
    int d = (int)r.range(1, 3);
    bool fl = sd < 2;
    if (fl) {
      if (d == 1) {case_interval<float, 1>(c, r);} else if (d == 2) {case_interval<float, 2>(c, r);} else {
        case_interval<float, 3>(c, r);
      }
    } else {
      if (d == 1) {case_interval<double, 1>(c, r);} else if (d == 2) {case_interval<double, 2>(c, r);} else {
        case_interval<double, 3>(c, r);
      }
    }
  } else if (k <= 17) {
    int hom = (int)r.range(0, 1);
    switch (sd * 2 + hom) {
      case 0: case_preconditioner<Eigen::Vector2f>(c, r); break;
      case 1: case_preconditioner<romea::core::HomogeneousCoordinates2f>(c, r); break;
      case 2: case_preconditioner<Eigen::Vector3f>(c, r); break;
      case 3: case_preconditioner<romea::core::HomogeneousCoordinates3f>(c, r); break;
      case 4: case_preconditioner<Eigen::Vector2d>(c, r); break;
      case 5: case_preconditioner<romea::core::HomogeneousCoordinates2d>(c, r); break;
      case 6: case_preconditioner<Eigen::Vector3d>(c, r); break;
      default: case_preconditioner<romea::core::HomogeneousCoordinates3d>(c, r); break;
    }
  } else {
    int cont = (int)r.range(0, 2);
    bool matrices = r.coin(0.3);
    bool four = r.coin(0.2);           // four components (the homogeneous 3D layout)
    if (four) {c.cat("container_four_components");}
#define C20_DISPATCH_C(CALL) \
  if (four) {if (sd < 2) {CALL(float, 4);} else {CALL(double, 4);}} else {C20_DISPATCH_SD(CALL)}
    if (!matrices) {
#define CALL(S, D) \
  do {using A = Eigen::Array<S, D, 1>; const char * tn = "Array<" #S "," #D ",1>"; \
    if (cont == 0) {case_container<A, 0, true>(c, r, tn);} else if (cont == 1) {case_container<A, 1, true>(c, r, tn);} else { \
      case_container<A, 2, true>(c, r, tn);}} while (0)
      C20_DISPATCH_C(CALL)
#undef CALL
    } else {
#define CALL(S, D) \
  do {using A = Eigen::Matrix<S, D, 1>; const char * tn = "Matrix<" #S "," #D ",1>"; \
    if (cont == 0) {case_container<A, 0, false>(c, r, tn);} else if (cont == 1) {case_container<A, 1, false>(c, r, tn);} else { \
      case_container<A, 2, false>(c, r, tn);}} while (0)
      C20_DISPATCH_C(CALL)
#undef CALL
    }
  }
}

int main(int argc, char ** argv)
{
  return vh::run(argc, argv, "C20", {1000000, 50000000}, one_case);
}
