#include <cstdio>
#include <fstream>
#include <random>
#include "romea_core_common/transform/estimation/FindRigidTransformationByICP.hpp"
using namespace romea::core;
template<class P> PointSet<P> load(){ std::ifstream f("/repo/test/data/scan2d.txt"); PointSet<P> s; double x,y; while(f>>x>>y){ P p; p[0]=x;p[1]=y; s.push_back(p);} return s; }
template<class P> void run(const char*name,double stdv){
  auto src=load<P>(); printf("%s n=%zu\n",name,src.size());
  std::mt19937_64 g(17); std::uniform_real_distribution<double> U(-1,1);
  int fail=0,far=0,tot=0; double worst=0; double wtx=0,wty=0,wth=0;
  for(int it=0;it<300;it++){
    double tx=0.2*U(g),ty=0.2*U(g),th=0.05*U(g); if(it==0){tx=ty=th=0;} if(it==1){tx=0.2;ty=0.2;th=0.05;} if(it==2){tx=-0.2;ty=0.2;th=-0.05;} if(it==3){tx=0.2;ty=-0.2;th=-0.05;} if(it==4){tx=-0.2;ty=-0.2;th=0.05;}
    Eigen::Matrix<typename P::Scalar,3,3> T=Eigen::Matrix<typename P::Scalar,3,3>::Identity(); T(0,0)=cos(th);T(0,1)=-sin(th);T(1,0)=sin(th);T(1,1)=cos(th);T(0,2)=tx;T(1,2)=ty;
    PointSet<P> tgt(src.size()); for(size_t i=0;i<src.size();i++){ tgt[i]=src[i]; tgt[i][0]=T(0,0)*src[i][0]+T(0,1)*src[i][1]+tx; tgt[i][1]=T(1,0)*src[i][0]+T(1,1)*src[i][1]+ty; }
    FindRigidTransformationByICP<P> icp(stdv);
    bool ok=icp.find(src,tgt,Eigen::Matrix<typename P::Scalar,3,3>::Identity());
    double err=(icp.getTransformation()-T).norm(); tot++;
    if(!ok) {fail++; if(fail<5) printf("  FAIL tx=%g ty=%g th=%g err=%g\n",tx,ty,th,err);} else { if(err>worst){worst=err;wtx=tx;wty=ty;wth=th;} if(err>0.015){far++; if(far<5) printf("  FAR tx=%g ty=%g th=%g err=%g\n",tx,ty,th,err);} }
  }
  printf("%s std=%g: tot=%d fail=%d far=%d worst=%.4g at (%g,%g,%g)\n",name,stdv,tot,fail,far,worst,wtx,wty,wth);
}
int main(){ run<Eigen::Vector2d>("cart2d",0.2); run<HomogeneousCoordinates2d>("hom2d",0.2); run<Eigen::Vector2d>("cart2d",0.1); run<Eigen::Vector2f>("cart2f",0.2);}
