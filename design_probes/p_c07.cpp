#include <cstdio>
#include <random>
#include "romea_core_common/regression/leastsquares/LeastSquares.hpp"
using namespace romea::core;
typedef long double LD;
template<class S> void run(const char*nm){
  std::mt19937_64 g(8); std::uniform_real_distribution<double> U(0,1); std::normal_distribution<double> N(0,1);
  double wgrad=0,whist=0,wchol=0,wsvd=0,ww=0,wpre=0,wcov=0; long cases=0,vac=0;
  for(int it=0;it<3000;it++){
    int m=1+(int)(U(g)*8); LeastSquares<S> ls(m);
    if(it%2){ Eigen::Matrix<S,-1,-1> A=Eigen::Matrix<S,-1,-1>::Identity(m,m); Eigen::Matrix<S,-1,1> b(m); for(int i=0;i<m;i++){ A(i,i)=(S)(0.1+2*U(g)); b(i)=(S)N(g);} ls.setPreconditionner(A,b); }
    Eigen::Matrix<S,-1,-1> Ap=Eigen::Matrix<S,-1,-1>::Identity(m,m); Eigen::Matrix<S,-1,1> bp=Eigen::Matrix<S,-1,1>::Zero(m);
    // cannot read back preconditioner; regenerate deterministically
    std::mt19937_64 g2(1000+it); 
    for(int pr=0;pr<6;pr++){
      int n=m+(int)(U(g)*(pr%2?20:300)); double kappa=std::pow(10.,3*U(g)); 
      // J = Q1 * diag * Q2^T via random + scaling of columns (approx cond)
      Eigen::Matrix<LD,-1,-1> J(n,m); for(int i=0;i<n;i++)for(int j=0;j<m;j++)J(i,j)=N(g); for(int j=0;j<m;j++) J.col(j)*= (LD)std::pow(kappa,(double)j/std::max(1,m-1))/ (LD)kappa;
      Eigen::Matrix<LD,-1,1> Y(n); for(int i=0;i<n;i++)Y(i)=N(g);
      Eigen::Matrix<S,-1,-1> Js=J.template cast<S>(); Eigen::Matrix<S,-1,1> Ys=Y.template cast<S>();
      ls.setDataSize(n); auto&JJ=ls.getJ(); auto&YY=ls.getY(); for(int i=0;i<JJ.rows();i++){ for(int j=0;j<m;j++) JJ(i,j)= i<n? Js(i,j):(S)1e30; YY(i)= i<n?Ys(i):(S)1e30; }
      Eigen::Matrix<S,-1,1> x1=ls.estimateUsingSVD(); Eigen::Matrix<S,-1,1> x2=ls.estimateUsingCholeskyDecomposition();
      LeastSquares<S> fresh(m); if(it%2){ /* same preconditioner needed: skip differential when preconditioned */ }
      if(!(it%2)){ fresh.setDataSize(n); fresh.getJ()=Js; fresh.getY()=Ys; Eigen::Matrix<S,-1,1> xf=fresh.estimateUsingSVD();
        Eigen::Matrix<LD,-1,-1> Jd=Js.template cast<LD>(); Eigen::Matrix<LD,-1,-1> JtJ=Jd.transpose()*Jd; Eigen::JacobiSVD<Eigen::Matrix<LD,-1,-1>> sv(JtJ); LD cond=sv.singularValues()(0)/sv.singularValues()(m-1); LD eps=std::numeric_limits<S>::epsilon(); if(64*eps*cond>1e-2){vac++; continue;} cases++;
        Eigen::Matrix<LD,-1,1> xr=Jd.householderQr().solve(Ys.template cast<LD>());
        LD invn=1/sv.singularValues()(m-1); LD gradtol=16*eps*(cond*(Jd.transpose()*Ys.template cast<LD>()).norm() + (LD)n*Jd.norm()*Ys.template cast<LD>().norm()/sqrtl((LD)n) + JtJ.norm()*xr.norm()); LD tol=invn*gradtol/(xr.norm()+1e-300L);
        { Eigen::Matrix<LD,-1,1> gr=Jd.transpose()*(Jd*x1.template cast<LD>()-Ys.template cast<LD>()); wgrad=std::max(wgrad,(double)(gr.norm()/gradtol)); gr=Jd.transpose()*(Jd*x2.template cast<LD>()-Ys.template cast<LD>()); wgrad=std::max(wgrad,(double)(gr.norm()/gradtol)); }
        whist=std::max(whist,(double)((x1-xf).template cast<LD>().norm()/(xr.norm()+1e-300L)/tol)); wsvd=std::max(wsvd,(double)((x1.template cast<LD>()-xr).norm()/(xr.norm()+1e-300L)/tol)); wchol=std::max(wchol,(double)((x2.template cast<LD>()-xr).norm()/(xr.norm()+1e-300L)/tol)); }
    }
  }
  printf("%s cases=%ld vacuous=%ld worst ratio-to-tol: grad %.3g hist %.3g svd %.3g chol %.3g\n",nm,cases,vac,wgrad,whist,wsvd,wchol);
}
int main(){ run<double>("double"); run<float>("float"); }
