#include <cstdio>
#include <random>
#include <iostream>
#include "romea_core_common/geometry/Pose3D.hpp"
#include "romea_core_common/math/EulerAngles.hpp"
using namespace romea::core;
typedef Eigen::Matrix<double,6,1> V6; typedef Eigen::Matrix<double,6,6> M6;
V6 f(const Eigen::Affine3d&A,const V6&x){ Pose3D p; p.position=x.head<3>(); p.orientation=x.tail<3>(); Pose3D r=A*p; V6 y; y.head<3>()=r.position; y.tail<3>()=r.orientation; return y;}
M6 numJ(const Eigen::Affine3d&A,const V6&x){ M6 J; double h=1e-6; for(int k=0;k<6;k++){ V6 a=x,b=x; a[k]+=h; b[k]-=h; V6 d=f(A,a)-f(A,b); for(int i=3;i<6;i++) d[i]=std::remainder(d[i],2*M_PI); J.col(k)=d/(2*h);} return J;}
// recover implied J from covariance outputs: use C = e_k e_k^T ... J C J^T with C=I gives JJ^T only. Instead use C = (e_i+e_j)(..)^T trick: J e_k e_k^T J^T = (J col k)(J col k)^T -> column up to sign.
int main(){
  std::mt19937_64 g(5); std::uniform_real_distribution<double> U(-1,1);
  for(int it=0;it<4;it++){
    Eigen::Vector3d ang(0.5*U(g),0.5*U(g),0.5*U(g)), pang(0.5*U(g),0.5*U(g),0.5*U(g)); if(it==0){ang.setZero();pang.setZero();} if(it==1){pang.setZero();}  if(it==2){ang.setZero();}
    Eigen::Affine3d A=Eigen::Translation3d(U(g),U(g),U(g))*Eigen::Affine3d(eulerAnglesToRotation3D(ang));
    V6 x; x<<U(g),U(g),U(g),pang[0],pang[1],pang[2];
    M6 Jn=numJ(A,x);
    // implied J via rank one covariances with pairs to fix signs
    M6 Ji; Pose3D p; p.position=x.head<3>(); p.orientation=x.tail<3>();
    M6 L=M6::Identity(); p.covariance=M6::Identity(); M6 JJt=(A*p).covariance;
    // get J columns: C=e_k e_k^T -> c_k c_k^T; sign relative to col 0 using C=(e_0+e_k)(e_0+e_k)^T
    for(int k=0;k<6;k++){ p.covariance.setZero(); p.covariance(k,k)=1; M6 O=(A*p).covariance; int imax; O.diagonal().maxCoeff(&imax); Eigen::Matrix<double,6,1> c=O.col(imax)/std::sqrt(std::max(1e-300,O(imax,imax))); Ji.col(k)=c; }
    std::cout<<"case "<<it<<" transform angles "<<ang.transpose()<<" pose angles "<<pang.transpose()<<"\nnumeric J:\n"<<Jn<<"\nimplied |J| columns (sign-ambiguous):\n"<<Ji<<"\n\n";
  }
}
