#include <cstdio>
#include <random>
#include "romea_core_common/transform/estimation/RansacRigidTransformationModel.hpp"
using namespace romea::core;
template<class P,int D> void run(const char*nm,int seed,int N){
  std::mt19937_64 g(seed); std::uniform_real_distribution<double> U(-1,1); std::normal_distribution<double> G(0,1);
  int fail=0,far=0,rmsbad=0; double worst=0;
  for(int it=0;it<N;it++){
    int n=40+(int)(180*(U(g)+1)); double sigma=0.02+0.1*std::abs(U(g)); double frac=0.3*std::abs(U(g));
    Eigen::Matrix<double,D+1,D+1> T=Eigen::Matrix<double,D+1,D+1>::Identity();
    if(D==2){ double th=0.2*U(g); T(0,0)=cos(th);T(0,1)=-sin(th);T(1,0)=sin(th);T(1,1)=cos(th);} else { Eigen::Vector3d ax(G(g),G(g),G(g)); ax.normalize(); Eigen::Matrix3d R=Eigen::AngleAxisd(0.2*U(g),ax).toRotationMatrix(); for(int i=0;i<3;i++)for(int j=0;j<3;j++)T(i,j)=R(i,j);} 
    Eigen::Matrix<double,D,1> t; for(int i=0;i<D;i++){t[i]=U(g); } t*= 0.5*std::abs(U(g))/std::max(1e-9,t.norm()); for(int i=0;i<D;i++)T(i,D)=t[i];
    Eigen::Matrix<double,D,1> off; for(int i=0;i<D;i++) off[i]=0*U(g);
    PointSet<P> S(n),Tg(n); std::vector<Correspondence> C(n);
    for(int i=0;i<n;i++){ Eigen::Matrix<double,D,1> s; for(int k=0;k<D;k++) s[k]=off[k]+10*U(g); Eigen::Matrix<double,D,1> q=T.template block<D,D>(0,0)*s+t; for(int k=0;k<D;k++) q[k]+=0.3*sigma*G(g)/std::sqrt((double)D);
      if(i<(int)(frac*n)){ Eigen::Matrix<double,D,1> d; for(int k=0;k<D;k++) d[k]=G(g); d.normalize(); q+=d*sigma*(10+20*std::abs(U(g))); }
      S[i]=P(); Tg[i]=P(); for(int k=0;k<D;k++){S[i][k]=s[k]; Tg[i][k]=q[k];} C[i]=Correspondence(i,i); }
    RansacRigidTransformationModel<P> model; Ransac ransac(&model,sigma);
    model.loadPointSets(&S,&Tg); model.loadCorrespondences(&C,n); model.loadTargetNormalSet(nullptr);
    bool ok=ransac.estimateModel(); double err=(model.getTransformation().template cast<double>()-T).norm(); double rms=model.getRootMeanSquareError();
    if(!ok){fail++; if(fail<4) printf("%s FAIL n=%d sigma=%g frac=%g\n",nm,n,sigma,frac);} else { worst=std::max(worst,err); if(err>0.015){far++; if(far<4) printf("%s FAR err=%g n=%d sigma=%g frac=%g rms=%g\n",nm,err,n,sigma,frac,rms);} if(!(rms<sigma)) rmsbad++; }
  }
  printf("%s N=%d fail=%d far=%d rmsbad=%d worst=%g\n",nm,N,fail,far,rmsbad,worst);
}
int main(int argc,char**argv){ int seed=atoi(argv[1]); run<Eigen::Vector2d,2>("c2d",seed,500); run<Eigen::Vector3d,3>("c3d",seed,300); run<HomogeneousCoordinates2d,2>("h2d",seed,300); run<HomogeneousCoordinates3f,3>("h3f",seed,300); run<Eigen::Vector2f,2>("c2f",seed,300);}
