#include <cstdio>
#include <fstream>
#include "romea_core_common/transform/estimation/FindRigidTransformationByICP.hpp"
using namespace romea::core; typedef Eigen::Vector2d P;
PointSet<P> load(){ std::ifstream f("/repo/test/data/scan2d.txt"); PointSet<P> s; double x,y; while(f>>x>>y){ P p; p[0]=x;p[1]=y; s.push_back(p);} return s; }
int main(){ auto src=load(); double tx=0.2,ty=0.2,th=0.05;
 Eigen::Matrix3d T=Eigen::Matrix3d::Identity(); T(0,0)=cos(th);T(0,1)=-sin(th);T(1,0)=sin(th);T(1,1)=cos(th);T(0,2)=tx;T(1,2)=ty;
 PointSet<P> tgt(src.size()); for(size_t i=0;i<src.size();i++){ tgt[i][0]=T(0,0)*src[i][0]+T(0,1)*src[i][1]+tx; tgt[i][1]=T(1,0)*src[i][0]+T(1,1)*src[i][1]+ty; }
 for(int iters: {10,20,50,200}){ FindRigidTransformationByICP<P> icp(0.2); icp.setMaximalNumberOfIterations(iters); bool ok=icp.find(src,tgt,Eigen::Matrix3d::Identity()); printf("iters=%d ok=%d err=%g\n",iters,ok,(icp.getTransformation()-T).norm()); }
 // duplicates in scan?
 int dup=0; for(size_t i=1;i<src.size();i++) if(src[i]==src[i-1]) dup++; printf("n=%zu consecutive dups=%d\n",src.size(),dup);
}
