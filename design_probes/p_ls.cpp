#include <cstdio>
#include <random>
#include "romea_core_common/regression/leastsquares/LeastSquares.hpp"
using namespace romea::core;
template<class S> void run(const char*name){
  std::mt19937_64 g(3); std::normal_distribution<double> N(0,1);
  for(double scale: {1.0,1e-1,1e-2,1e-3,1e-4,1e-6,1e3}){
    int m=3,n=20; LeastSquares<S> ls(m); ls.setDataSize(n);
    Eigen::Matrix<S,-1,-1> J(n,m); Eigen::Matrix<S,-1,1> x(m),Y;
    for(int i=0;i<n;i++)for(int j=0;j<m;j++)J(i,j)=S(N(g)*scale);
    for(int j=0;j<m;j++)x(j)=S(N(g));
    Y=J*x;
    ls.getJ().topRows(n)=J; ls.getY().head(n)=Y;
    auto xs=ls.estimateUsingSVD(); auto xc=ls.estimateUsingCholeskyDecomposition();
    printf("%s scale %g: |xsvd-x|=%.3g |xchol-x|=%.3g\n",name,scale,double((xs-x).norm()),double((xc-x).norm()));
  }
}
int main(){ run<double>("double"); run<float>("float"); }
