#include <cstdio>
#include <cmath>
#include "romea_core_common/geodesy/LambertConverter.hpp"
using namespace romea::core;
int main(int argc,char**argv){
  double sgn = argc>1? -1: 1;
  LambertConverter::SecantProjectionParameters p;
  p.longitude0=3*M_PI/180; p.latitude0=sgn*46.5*M_PI/180; p.latitude1=sgn*44*M_PI/180; p.latitude2=sgn*49*M_PI/180; p.x0=700000; p.y0=6600000;
  auto pp=LambertConverter::computeProjectionParameters(p,EarthEllipsoid::GRS80);
  printf("n=%g c=%g xs=%g ys=%g\n",pp.n,pp.c,pp.xs,pp.ys);
  LambertConverter c(p,EarthEllipsoid::GRS80);
  WGS84Coordinates w{sgn*45.0*M_PI/180, 5*M_PI/180};
  auto xy=c.toLambert(w); printf("xy=%.4f %.4f\n",xy.x(),xy.y());
  auto o=c.toLambert(WGS84Coordinates{p.latitude0,p.longitude0}); printf("origin-> %.6f %.6f\n",o.x(),o.y());
  fflush(stdout);
  auto b=c.toWGS84(xy); printf("back: dlat=%.3g dlon=%.3g\n",b.latitude-w.latitude,b.longitude-w.longitude);
}
