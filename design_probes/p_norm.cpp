#include <cstdio>
#include <random>
#include "romea_core_common/pointset/algorithms/NormalAndCurvatureEstimation.hpp"
using namespace romea::core;
template<class P> void run(const char*name, bool zeroInit){
  std::mt19937_64 g(5); std::uniform_real_distribution<double> U(-1,1);
  int n=400; PointSet<P> pts(n); 
  // line y = 0.5 + 0.3 x  (2D), x in [-2,2]
  for(int i=0;i<n;i++){ double x=2*U(g); double a=M_PI*U(g); double r=0.6+0.001*U(g); pts[i][0]=r*cos(a); pts[i][1]=r*sin(a); }
  NormalSet<P> normals(n); if(zeroInit) for(auto&v:normals) v=P::Zero();
  std::vector<typename P::Scalar> curv(n);
  NormalAndCurvatureEstimation<P> e(10); e.compute(pts,normals,curv);
  int away=0, nonunit=0; double maxc=0;
  for(int i=0;i<n;i++){ double d=normals[i][0]*pts[i][0]+normals[i][1]*pts[i][1]; if(d>1e-9) away++; double nn=std::hypot(normals[i][0],normals[i][1]); if(std::abs(nn-1)>1e-5) nonunit++; maxc=std::max(maxc,(double)std::abs(curv[i])); }
  printf("%s zeroInit=%d: away-from-origin %d/%d nonunit %d maxcurv %.3g\n",name,zeroInit,away,n,nonunit,maxc);
}
int main(){ run<Eigen::Vector2d>("cart2d",false); run<HomogeneousCoordinates2d>("homog2d",false); run<HomogeneousCoordinates2d>("homog2d",true); run<HomogeneousCoordinates2f>("homog2f",false);}
