#include <cstdio>
#include <random>
#include <cmath>
#include "romea_core_common/containers/grid/GridIndexMapping.hpp"
using namespace romea::core;
template<class S> void run(const char*name){
  std::mt19937_64 g(11); std::uniform_real_distribution<double> U(0,1);
  long cases=0, oob=0, far=0, spacing=0, cover=0; double worst=0;
  for(int it=0;it<20000;it++){
    double res = std::pow(10., -3+4*U(g)); if(it%5==0) res = (double)(S)(std::pow(2.,-(int)(U(g)*8)));  // dyadic sometimes
    double span = std::min(2000.0, res*3000*U(g)+res); 
    double lo = -1000 + (2000-span)*U(g); double hi = lo+span;
    if(it%3==0){ lo=std::round(lo/res)*res; hi=std::round(hi/res)*res; if(hi<=lo) hi=lo+res; }
    if(it%7==0){ lo=(std::round(lo/res)+0.5)*res; hi=(std::round(hi/res)+0.5)*res; if(hi<=lo) hi=lo+res;}
    using G=GridIndexMapping<S,2>; typename G::PointType L((S)lo,(S)lo),H((S)hi,(S)hi);
    if(!(L[0]<H[0])) continue;
    G m(Interval<S,2>(L,H),(S)res);
    auto nc=m.getNumberOfCellsAlongAxes();
    S r=(S)res; S ulp = std::numeric_limits<S>::epsilon()*std::max(std::abs(L[0]),std::abs(H[0]));
    auto& centers=m.getCellCentersPositionAlong(0);
    if(centers.front()-r/2 > L[0]+4*ulp || centers.back()+r/2 < H[0]-4*ulp) cover++;
    for(int k=0;k<50;k++){
      S p; int mode=k%5; if(mode==0) p=L[0]; else if(mode==1) p=H[0]; else if(mode==2){ p=(S)(lo+(hi-lo)*U(g)); } else if(mode==3){ size_t i=(size_t)(U(g)*nc[0]); if(i>=nc[0]) i=nc[0]-1; p=centers[i]+r/2; if(p>H[0]) p=H[0]; if(p<L[0]) p=L[0]; } else { size_t i=(size_t)(U(g)*nc[0]); if(i>=nc[0]) i=nc[0]-1; p=centers[i]; if(p>H[0]) p=H[0]; if(p<L[0]) p=L[0];}
      typename G::PointType P(p,p); auto idx=m.computeCellIndexes(P); cases++;
      if(idx[0]>=nc[0]){ oob++; if(oob<5) printf("%s OOB lo=%.9g hi=%.9g res=%.9g p=%.9g idx=%zu n=%zu\n",name,(double)L[0],(double)H[0],res,(double)p,(size_t)idx[0],(size_t)nc[0]); continue;}
      double d=std::abs((double)p-(double)centers[idx[0]]); double exc=(d-(double)r/2)/ (double)ulp; worst=std::max(worst,exc);
      if(d>(double)r/2+8*(double)ulp) {far++; if(far<5) printf("%s FAR lo=%.9g hi=%.9g res=%.9g p=%.9g idx=%zu d=%.9g\n",name,(double)L[0],(double)H[0],res,(double)p,(size_t)idx[0],d);}
    }
  }
  printf("%s cases=%ld oob=%ld far=%ld cover=%ld worst excess (ulps)=%.3g\n",name,cases,oob,far,cover,worst);
}
int main(){ run<double>("double"); run<float>("float"); }
