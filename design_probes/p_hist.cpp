#include <cstdio>
#include <map>
#include <deque>
#include <random>
#include <array>
#include "romea_core_common/containers/grid/WrappableGrid.hpp"
#include "romea_core_common/monitoring/OnlineVariance.hpp"
#include "romea_core_common/containers/Eigen/RingOfEigenVector.hpp"
#include "romea_core_common/pointset/algorithms/PointSetPreconditioner.hpp"
using namespace romea::core;
int main(){
  // C15: 2D, two translations
  { using G=WrappableGrid<int,2>; long seqs=0,bad=0; 
    for(int nx=1;nx<=3;nx++)for(int ny=1;ny<=3;ny++){
      for(int a=-(nx+1);a<=nx+1;a++)for(int b=-(ny+1);b<=ny+1;b++)for(int c=-(nx+1);c<=nx+1;c++)for(int d=-(ny+1);d<=ny+1;d++){
        G g(G::CellIndexes(nx,ny)); std::map<std::pair<long,long>,int> win; int id=1; for(int y=0;y<ny;y++)for(int x=0;x<nx;x++){ g(G::CellIndexes(x,y))=id; win[{x,y}]=id; id++; }
        long ox=0,oy=0; int offs[2][2]={{a,b},{c,d}}; bool ok=true;
        for(int t=0;t<2;t++){ int e=-(t+1); g.translate(G::CellIndexesOffset(offs[t][0],offs[t][1]),e); ox+=offs[t][0]; oy+=offs[t][1]; std::map<std::pair<long,long>,int> nw; for(int y=0;y<ny;y++)for(int x=0;x<nx;x++){ auto k=std::make_pair(ox+x,oy+y); auto it=win.find(k); nw[k]= it==win.end()? e: it->second; } win=nw;
          for(int y=0;y<ny;y++)for(int x=0;x<nx;x++) if(g(G::CellIndexes(x,y))!=win[{ox+x,oy+y}]) ok=false; auto o=g.getIndexOffsetAlongAxes(); if((long)o[0]!=((ox%nx)+nx)%nx||(long)o[1]!=((oy%ny)+ny)%ny) ok=false; if(!ok&&t==0){ printf("FIRST translation wrong nx=%d ny=%d off=(%d,%d)\n",nx,ny,a,b);} }
        seqs++; if(!ok) bad++; } }
    printf("C15 2D depth2: sequences=%ld bad=%ld\n",seqs,bad); }
  // C16 average after reset
  { OnlineAverage a(0.01,4); for(int i=1;i<=6;i++) a.update(i); a.reset(); for(int i=10;i<=15;i++) a.update(i); printf("C16 avg after reset: got %.4f expected %.4f\n",a.getAverage(),(12+13+14+15)/4.0);
    OnlineVariance v(1e-5,4); for(double x: {1.0,2.0,3.0,4.0}) v.update(x); printf("C16 var precision 1e-5: got %.6g expected %.6g\n",v.getVariance(),5.0/3.0);
    RingOfEigenVector<Eigen::Vector2d> r(3); for(int i=0;i<5;i++) r.append(Eigen::Vector2d(i,i)); printf("C16 ring cap3 after 0..4: [0]=%g [1]=%g [2]=%g (expect 4 3 2)\n",r[0][0],r[1][0],r[2][0]);
    RingOfEigenVector<Eigen::Vector2d> q(4); for(int i=0;i<6;i++) q.append(Eigen::Vector2d(i,i)); q.clear(); q.append(Eigen::Vector2d(10,10)); q.append(Eigen::Vector2d(11,11)); printf("C16 ring cap4 after clear + 10,11: [0]=%g [1]=%g (expect 11 10)\n",q[0][0],q[1][0]); }
  // C20
  { PointSet<Eigen::Vector2d> p; p.emplace_back(-3,-5); p.emplace_back(-1,-2); PointSetPreconditioner<Eigen::Vector2d> pc(p); printf("C20 all-negative: max=(%g,%g) expected (-1,-2); scale=%g expected %g\n",pc.getPointSetMax()[0],pc.getPointSetMax()[1],pc.getScale(),1/3.0); }
}
