#include <cstdio>
#include <random>
#include <iostream>
#include "romea_core_common/math/EulerAngles.hpp"
#include "romea_core_common/transform/SmartRotation3D.hpp"
#include "romea_core_common/coordinates/SphericalCoordinates.hpp"
#include "romea_core_common/coordinates/PolarCoordinates.hpp"
#include "romea_core_common/geometry/Pose3D.hpp"
#include "romea_core_common/geometry/Pose2D.hpp"
using namespace romea::core;
double angdiff(double a,double b){ double d=std::remainder(a-b,2*M_PI); return std::abs(d);} 
int main(){
  std::mt19937_64 g(3); std::uniform_real_distribution<double> U(-1,1);
  double w1=0,w2=0,w3=0,w4=0,w5=0; 
  for(int i=0;i<1000000;i++){
    Eigen::Vector3d a(2*M_PI*U(g), (M_PI/2-1e-3)*U(g), 2*M_PI*U(g));
    auto R=eulerAnglesToRotation3D(a); auto b=rotation3DToEulerAngles(R);
    double c=std::cos(a[1]);
    for(int k=0;k<3;k++) w1=std::max(w1,angdiff(a[k],b[k])*c);
    SmartRotation3D s(a); w2=std::max(w2,(s.R()-R).norm());
    auto q=eulerAnglesToQuaternion(a); q.coeffs()*= (1+10*std::abs(U(g))); auto e=quaternionToEulerAngles(q); for(int k=0;k<3;k++) w3=std::max(w3,angdiff(a[k],e[k])*c);
    w4=std::max(w4,(R*R.transpose()-Eigen::Matrix3d::Identity()).norm()+std::abs(R.determinant()-1));
    auto R2=eulerAnglesToRotation3D(b); w5=std::max(w5,(R2-R).norm());
  }
  printf("euler rt (scaled by cos pitch) %.3g smart-vs-quat %.3g quat rt %.3g orth %.3g R->a->R %.3g\n",w1,w2,w3,w4,w5);
  // normalisers
  double worst=0; int outside=0; 
  for(int i=0;i<2000000;i++){ double v=4*M_PI*U(g)*0.999999; if(i%10==0) v=std::nextafter(2*M_PI*(int)(2*U(g)),(i%20)?10.:-10.); if(i%10==1) v=-1e-17*(1+i%5); double r=between0And2Pi(v); double s=betweenMinusPiAndPi(v); if(r<0||r>2*M_PI) outside++; if(s<-M_PI||s>M_PI) outside++; worst=std::max(worst,angdiff(r,v)); worst=std::max(worst,angdiff(s,v)); if(r==2*M_PI && i<100) printf("between0And2Pi(%g)=2pi exactly\n",v);} 
  printf("normalisers outside closed interval: %d worst congruence err %.3g\n",outside,worst);
  float rf=between0And2Pi(-1e-8f); printf("float between0And2Pi(-1e-8f)=%.9g (2pi=%.9g) >2pi? %d\n",rf,2*M_PI,(double)rf>2*M_PI);
  // spherical
  double ws=0; for(int i=0;i<1000000;i++){ Eigen::Vector3d p(U(g),U(g),U(g)); if(i%5==0){p[0]*=1e-8;p[1]*=1e-8;} p*=std::pow(10.,6*U(g))/std::max(1e-300,p.norm()); auto s=toSpherical(p); auto q=toCartesian(s); ws=std::max(ws,(q-p).norm()/p.norm()); }
  printf("spherical roundtrip rel err %.3g\n",ws);
}
