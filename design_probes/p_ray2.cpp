#include <cstdio>
#include <random>
#include <cmath>
#include "romea_core_common/containers/grid/RayTracing.hpp"
using namespace romea::core;
// distance from segment AB to axis aligned box [lo,hi] (approx via clipping): returns max over axes of needed inflation so segment intersects box
template<class S,int D> double segBoxGap(const Eigen::Matrix<double,D,1>&A,const Eigen::Matrix<double,D,1>&B,const Eigen::Matrix<double,D,1>&lo,const Eigen::Matrix<double,D,1>&hi){
  // binary search on inflation e such that slab test passes
  auto hit=[&](double e){ double t0=0,t1=1; for(int i=0;i<D;i++){ double d=B[i]-A[i]; double l=lo[i]-e,h=hi[i]+e; if(d==0){ if(A[i]<l||A[i]>h) return false; } else { double ta=(l-A[i])/d, tb=(h-A[i])/d; if(ta>tb) std::swap(ta,tb); t0=std::max(t0,ta); t1=std::min(t1,tb); if(t0>t1) return false; } } return true; };
  if(hit(0)) return 0; double a=0,b=1; while(!hit(b)) b*=2; for(int k=0;k<60;k++){ double m=(a+b)/2; if(hit(m)) b=m; else a=m; } return b;
}
template<class S,int D> void run(const char*name,int iters){
  std::mt19937_64 g(13); std::uniform_real_distribution<double> U(0,1);
  using G=GridIndexMapping<S,D>; using P=typename G::PointType; using C=typename G::CellIndexes;
  long casts=0,badstart=0,badcount=0,nonadj=0,oob=0,badend=0,offseg=0,hist=0; double worstgap=0; double worstgapn2=0; double worstratio=0; double worstend=0;
  for(int it=0;it<iters;it++){
    double res = 0.01*std::pow(100.,U(g)); if(it%4==0) res=(it%8==0)?0.125:0.1;
    int ncell = 2+(int)(U(g)*(it%3==0?1999:200)); double half=res*ncell/2;
    G m((S)half,(S)res); RayCasting<S,D> rc(&m); auto nc=m.getNumberOfCellsAlongAxes();
    C prevEnd; 
    for(int k=0;k<20;k++){
      P o,e; for(int i=0;i<D;i++){ auto pick=[&](){ int mode=(int)(U(g)*6); double v=(2*U(g)-1)*half; if(mode==0) v=std::round(v/res)*res; else if(mode==1) v=(std::round(v/res)+0.5)*res; else if(mode==2) v=(U(g)<0.5?-half:half); if(v>half)v=half; if(v<-half)v=-half; return (S)v;}; o[i]=pick(); e[i]=pick(); }
      int mode=(int)(U(g)*8); if(mode==0) e=o; else if(mode==1){ e=o; e[0]=(S)((2*U(g)-1)*half);} else if(mode==2){ S d=(S)((2*U(g)-1)*half*0.5); e=o; for(int i=0;i<D;i++){ e[i]=o[i]+d; if(e[i]>(S)half) e[i]=(S)half; if(e[i]<(S)-half) e[i]=(S)-half; } }
      if(k%3==1){ // disturb state: do some next() steps
        C tmp=rc.getOriginPointIndexes(); }
      auto ray = (k%2)? rc.cast(o,e) : (rc.setOriginPoint(o), rc.cast(e));
      casts++;
      C oi=m.computeCellIndexes(o), ei=m.computeCellIndexes(e);
      long l1=0; for(int i=0;i<D;i++) l1+=std::labs((long)ei[i]-(long)oi[i]);
      if((long)ray.size()!=l1+1) badcount++;
      if(ray.front()!=oi) badstart++;
      bool bad=false; for(size_t n=0;n<ray.size();n++){ for(int i=0;i<D;i++) if(ray[n][i]>=nc[i]) bad=true; if(bad) break; if(n){ long d=0; for(int i=0;i<D;i++) d+=std::labs((long)ray[n][i]-(long)ray[n-1][i]); if(d!=1) {nonadj++; break;} } }
      if(bad){ oob++; if(oob<4){ printf("%s OOB res=%g ncell=%d o=(",name,res,ncell); for(int i=0;i<D;i++)printf("%.9g ",(double)o[i]); printf(") e=("); for(int i=0;i<D;i++)printf("%.9g ",(double)e[i]); printf(")\n"); } continue; }
      // end containment (closed, with ulp tol)
      { P c=m.computeCellCenterPosition(ray.back()); double tol=4*std::numeric_limits<S>::epsilon()*half; bool in=true; for(int i=0;i<D;i++) if(std::abs((double)e[i]-(double)c[i])>res/2+tol) in=false; if(!in){ badend++; if(badend<4){ printf("%s BADEND res=%.9g ncell=%d o=(",name,res,ncell); for(int i=0;i<D;i++)printf("%.9g ",(double)o[i]); printf(") e=("); for(int i=0;i<D;i++)printf("%.9g ",(double)e[i]); printf(") last=("); for(int i=0;i<D;i++)printf("%zu ",(size_t)ray.back()[i]); printf(") ei=("); for(int i=0;i<D;i++)printf("%zu ",(size_t)ei[i]); printf(")\n"); } } }
      // segment coverage
      Eigen::Matrix<double,D,1> A=o.template cast<double>(),B=e.template cast<double>();
      double mg=0; for(auto&c: ray){ P cc=m.computeCellCenterPosition(c); Eigen::Matrix<double,D,1> lo=cc.template cast<double>().array()-res/2, hi=cc.template cast<double>().array()+res/2; double gap=segBoxGap<S,D>(A,B,lo,hi)/res; mg=std::max(mg,gap);} 
      worstgap=std::max(worstgap,mg); double n=ray.size(); { double allow=std::numeric_limits<S>::epsilon()*(8.0*ncell+n*n/2); worstratio=std::max(worstratio,mg/allow); } worstgapn2=std::max(worstgapn2, mg/(n*n*std::numeric_limits<S>::epsilon()));
      if(mg>1e-6 && std::is_same<S,double>::value) offseg++;
      // history independence
      RayCasting<S,D> fresh(&m); auto ray2=fresh.cast(o,e); if(ray2.size()!=ray.size()) hist++; else for(size_t n2=0;n2<ray.size();n2++) if(ray[n2]!=ray2[n2]){hist++;break;}
    }
  }
  printf("%s casts=%ld badstart=%ld badcount=%ld nonadj=%ld oob=%ld badend=%ld offseg=%ld hist=%ld worstgap(cells)=%.3g worstgap/(n^2 eps)=%.3g\n",name,casts,badstart,badcount,nonadj,oob,badend,offseg,hist,worstgap,worstgapn2); printf("%s worst gap/allowance=%.3g\n",name,worstratio);
}
int main(){ run<double,2>("d2",2000); run<float,2>("f2",6000); run<float,3>("f3",3000); }
