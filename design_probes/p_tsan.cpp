#include <thread>
#include <atomic>
#include <cstdio>
#include "romea_core_common/diagnostic/CheckupRate.hpp"
#include "romea_core_common/diagnostic/CheckupLowerThan.hpp"
#include "romea_core_common/diagnostic/CheckupReliability.hpp"
#include "romea_core_common/monitoring/OnlineVariance.hpp"
#include "romea_core_common/concurrency/SharedVariable.hpp"
#include "romea_core_common/concurrency/SharedOptionalVariable.hpp"
using namespace romea::core;
int main(int argc,char**argv){
  int which=atoi(argv[1]);
  std::atomic<bool> stop{false};
  if(which==0){ CheckupEqualTo<double> c("foo",10,0.1); std::thread w([&]{for(int i=0;i<20000;i++) c.evaluate(i%20);stop=true;}); std::thread r([&]{while(!stop){ DiagnosticReport rep=c.getReport(); (void)rep; }}); w.join(); r.join(); }
  if(which==1){ CheckupGreaterThan<double> c("foo",10,0.1); std::thread w([&]{for(int i=0;i<20000;i++) c.evaluate(i%20);stop=true;}); std::thread r([&]{while(!stop){ DiagnosticReport rep=c.getReport(); (void)rep; }}); w.join(); r.join(); }
  if(which==2){ CheckupEqualToRate c("foo",10,0.1); std::thread w([&]{for(int i=0;i<20000;i++) c.evaluate(durationFromMilliSecond(i*100));stop=true;}); std::thread r([&]{long k=0; while(!stop){ c.heartBeatCallback(durationFromMilliSecond(k++)); }}); w.join(); r.join(); }
  if(which==3){ OnlineVariance v(0.001,16); std::thread w([&]{for(int i=0;i<200000;i++){ v.update(i%7); if(i%1000==0) v.reset();}stop=true;}); std::thread r([&]{double s=0; while(!stop){ s+=v.isAvailable(); s+=v.getAverage(); s+=v.getVariance(); } printf("%g\n",s);}); w.join(); r.join(); }
  if(which==4){ CheckupReliability c("foo",0.2,0.8); std::thread w([&]{for(int i=0;i<20000;i++) c.evaluate((i%10)/10.);stop=true;}); std::thread r([&]{while(!stop){ DiagnosticReport rep=c.getReport(); (void)rep; }}); w.join(); r.join(); }
  if(which==5){ SharedVariable<std::pair<long,long>> sv; SharedOptionalVariable<long> so; std::thread w([&]{for(long i=0;i<200000;i++){ sv.store({i,-i}); so.store(i);}stop=true;}); std::thread r([&]{long bad=0,got=0; while(!stop){ auto p=sv.load(); if(p.first!=-p.second) bad++; auto o=so.consume(); if(o) got++; } printf("bad=%ld got=%ld\n",bad,got);}); w.join(); r.join(); }
}
