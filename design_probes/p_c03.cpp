#include <cstdio>
#include <random>
#include <cmath>
#include "romea_core_common/geodesy/LambertConverter.hpp"
using namespace romea::core;
typedef long double LD;
int main(){
  std::mt19937_64 g(4); std::uniform_real_distribution<double> U(0,1);
  double wconf=0,wortho=0,wk1=0,worig=0,wmer=0,wrt=0,wref=0; long n=0;
  for(int it=0;it<20000;it++){
    double sgn=1; // north only on the pinned tree (south inverse hangs)
    double a=6378137*(1+0.001*(2*U(g)-1)); double f=U(g)/290; if(it%7==0) f=0; double b=a*(1-f); EarthEllipsoid E(a,b);
    double l1=(15+58*U(g)); double d=1+19*U(g); double l2=std::min(75.0,l1+d); if(l2-l1<1) continue; double l0=l1+(l2-l1)*U(g);
    LambertConverter::SecantProjectionParameters p{ (2*U(g)-1)*M_PI*0.9, sgn*l0*M_PI/180, sgn*l1*M_PI/180, sgn*l2*M_PI/180, 1e6*U(g), 1e7*U(g)};
    LambertConverter c(p,E);
    auto F=[&](double lat,double lon){ auto v=c.toLambert(WGS84Coordinates{lat,lon}); return Eigen::Matrix<LD,2,1>((LD)v.x(),(LD)v.y()); };
    for(int k=0;k<10;k++){
      double lat=p.latitude0+(2*U(g)-1)*8*M_PI/180, lon=p.longitude0+(2*U(g)-1)*30*M_PI/180; if(k==0) lat=p.latitude1; if(k==1) lat=p.latitude2; if(std::abs(lat)>85*M_PI/180) continue;
      auto dlat=[&](double h){ return Eigen::Matrix<LD,2,1>((F(lat+h,lon)-F(lat-h,lon))/(2*(LD)h)); }; auto dlon=[&](double h){ return Eigen::Matrix<LD,2,1>((F(lat,lon+h)-F(lat,lon-h))/(2*(LD)h)); };
      double h=2e-4; Eigen::Matrix<LD,2,1> dphi=(4*dlat(h/2)-dlat(h))/3, dlam=(4*dlon(h/2)-dlon(h))/3;
      LD e2=E.e2, s=sinl((LD)lat); LD W=sqrtl(1-e2*s*s); LD M=a*(1-e2)/(W*W*W), N=a/W;
      LD hs=dphi.norm()/M, ks=dlam.norm()/(N*cosl((LD)lat));
      wconf=std::max(wconf,(double)fabsl(hs/ks-1)); wortho=std::max(wortho,(double)fabsl(dphi.dot(dlam)/(dphi.norm()*dlam.norm())));
      if(k<2) wk1=std::max(wk1,(double)fabsl(ks-1));
      auto b2=c.toWGS84(c.toLambert(WGS84Coordinates{lat,lon})); wrt=std::max(wrt,std::max(std::abs(b2.latitude-lat),std::abs(b2.longitude-lon))); n++;
    }
    auto o=c.toLambert(WGS84Coordinates{p.latitude0,p.longitude0}); worig=std::max(worig,std::hypot(o.x()-p.x0,o.y()-p.y0));
    auto m=c.toLambert(WGS84Coordinates{p.latitude0+0.05,p.longitude0}); wmer=std::max(wmer,std::abs(m.x()-p.x0));
  }
  printf("n=%ld conformal |h/k-1| %.3g ortho %.3g |k-1| on parallels %.3g origin %.3g m meridian %.3g m roundtrip %.3g rad\n",n,wconf,wortho,wk1,worig,wmer,wrt);
}
