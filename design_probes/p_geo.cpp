#include <cstdio>
#include <cmath>
#include <random>
#include "romea_core_common/geodesy/ECEFConverter.hpp"
#include "romea_core_common/geodesy/ENUConverter.hpp"
#include "romea_core_common/geodesy/LambertConverter.hpp"
using namespace romea::core;
int main(){
  ECEFConverter c;
  std::mt19937_64 g(1);
  std::uniform_real_distribution<double> ulat(-89.9*M_PI/180, 89.9*M_PI/180), uh(-11000,100000), ulon(-M_PI,M_PI);
  double maxlat=0,maxlon=0,maxh=0,maxp=0;
  for(int i=0;i<2000000;i++){
    double lat=ulat(g), lon=ulon(g), h=uh(g);
    GeodeticCoordinates gc; gc.latitude=lat; gc.longitude=lon; gc.altitude=h;
    auto e=c.toECEF(gc); auto b=c.toWGS84(e); auto e2=c.toECEF(b);
    maxlat=std::max(maxlat,std::abs(b.latitude-lat)); maxlon=std::max(maxlon,std::abs(b.longitude-lon)); maxh=std::max(maxh,std::abs(b.altitude-h)); maxp=std::max(maxp,(e2-e).norm());
  }
  printf("random: dlat %.3g dlon %.3g dh %.3g dpos %.3g\n",maxlat,maxlon,maxh,maxp);
  // near antimeridian
  for(double d: {0.0,1e-12,1e-10,1e-9,3e-9,1e-8,3e-8,1e-7,3e-7,1e-6,1e-5}){
    for(int s=-1;s<=1;s+=2){
    GeodeticCoordinates gc; gc.latitude=0.3; gc.longitude=s*(M_PI-d); gc.altitude=100;
    auto e=c.toECEF(gc); auto b=c.toWGS84(e); auto e2=c.toECEF(b);
    printf("lon=pi-%g s=%d: dlon=%.3g dpos=%.3g (Y=%.3g)\n",d,s,b.longitude-gc.longitude,(e2-e).norm(),e[1]);}
  }
  // high latitude
  maxh=0; maxlat=0;
  for(int i=0;i<200000;i++){ double lat=(89.9-1e-3*(i%100))*M_PI/180*((i&1)?1:-1); GeodeticCoordinates gc; gc.latitude=lat; gc.longitude=ulon(g); gc.altitude=uh(g);
    auto b=c.toWGS84(c.toECEF(gc)); maxh=std::max(maxh,std::abs(b.altitude-gc.altitude)); maxlat=std::max(maxlat,std::abs(b.latitude-lat));}
  printf("highlat: dlat %.3g dh %.3g\n",maxlat,maxh);
  return 0;
}
