#include <cstdio>
#include <fstream>
#include <random>
#include "romea_core_common/transform/estimation/FindRigidTransformationByICP.hpp"
using namespace romea::core;
template<class P> PointSet<P> load(){ std::ifstream f("/repo/test/data/scan2d.txt"); PointSet<P> s; double x,y; while(f>>x>>y){ P p; p[0]=x;p[1]=y; s.push_back(p);} return s; }
template<class P> void run(int seed,int N,const char*nm){
  auto src=load<P>(); 
  std::mt19937_64 g(seed); std::uniform_real_distribution<double> U(-1,1);
  double worst=0; int bad=0;
  for(int it=0;it<N;it++){
    double tx=0.2*U(g),ty=0.2*U(g),th=0.05*U(g);
    if(it%3==0){ // push toward boundary
      tx=0.2*std::copysign(1-0.1*std::abs(U(g))*std::abs(U(g)),U(g)); if(it%2) ty=0.2*std::copysign(1-0.1*std::abs(U(g))*std::abs(U(g)),U(g)); if(it%5==0) th=0.05*std::copysign(1-0.1*std::abs(U(g)),U(g)); }
    Eigen::Matrix3d T=Eigen::Matrix3d::Identity(); T(0,0)=cos(th);T(0,1)=-sin(th);T(1,0)=sin(th);T(1,1)=cos(th);T(0,2)=tx;T(1,2)=ty;
    PointSet<P> tgt(src.size()); for(size_t i=0;i<src.size();i++){ tgt[i]=src[i]; tgt[i][0]=T(0,0)*src[i][0]+T(0,1)*src[i][1]+tx; tgt[i][1]=T(1,0)*src[i][0]+T(1,1)*src[i][1]+ty; }
    FindRigidTransformationByICP<P> icp(0.2);
    bool ok=icp.find(src,tgt,Eigen::Matrix<typename P::Scalar,3,3>::Identity());
    double err=(icp.getTransformation().template cast<double>()-T).norm();
    if(ok) worst=std::max(worst,err);
    if(!ok||err>0.015){ bad++; printf("BAD %s ok=%d tx=%.5f ty=%.5f th=%.5f err=%.4f\n",nm,ok,tx,ty,th,err);}
  }
  printf("DONE %s seed=%d N=%d bad=%d worst_ok=%.5f\n",nm,seed,N,bad,worst);
}
int main(int argc,char**argv){ int seed=atoi(argv[1]); int N=atoi(argv[2]); if(seed%2) run<HomogeneousCoordinates2d>(seed,N,"hom"); else run<Eigen::Vector2d>(seed,N,"cart"); }
