#include <cstdio>
#include <fstream>
#include <random>
#include "romea_core_common/transform/estimation/FindRigidTransformationByICP.hpp"
using namespace romea::core;
typedef Eigen::Vector2d P;
PointSet<P> load(){ std::ifstream f("/repo/test/data/scan2d.txt"); PointSet<P> s; double x,y; while(f>>x>>y){ P p; p[0]=x;p[1]=y; s.push_back(p);} return s; }
int main(int argc,char**argv){
  auto src=load(); int seed=atoi(argv[1]); int N=atoi(argv[2]);
  std::mt19937_64 g(seed); std::uniform_real_distribution<double> U(-1,1);
  for(int it=0;it<N;it++){
    double tx=0.2*U(g),ty=0.2*U(g),th=0.05*U(g);
    if(it<27 && seed==0){ tx=0.2*((it%3)-1); ty=0.2*((it/3%3)-1); th=0.05*((it/9)-1); }
    else if(it%4==0){ // near faces
      tx = (U(g)>0?1:-1)*0.2*(1-0.05*std::abs(U(g))); } else if(it%4==1){ ty=(U(g)>0?1:-1)*0.2*(1-0.05*std::abs(U(g))); tx=(U(g)>0?1:-1)*0.2*(1-0.05*std::abs(U(g))); th=(U(g)>0?1:-1)*0.05*(1-0.05*std::abs(U(g)));}
    Eigen::Matrix3d T=Eigen::Matrix3d::Identity(); T(0,0)=cos(th);T(0,1)=-sin(th);T(1,0)=sin(th);T(1,1)=cos(th);T(0,2)=tx;T(1,2)=ty;
    PointSet<P> tgt(src.size()); for(size_t i=0;i<src.size();i++){ tgt[i][0]=T(0,0)*src[i][0]+T(0,1)*src[i][1]+tx; tgt[i][1]=T(1,0)*src[i][0]+T(1,1)*src[i][1]+ty; }
    FindRigidTransformationByICP<P> icp(0.2);
    bool ok=icp.find(src,tgt,Eigen::Matrix3d::Identity());
    double err=(icp.getTransformation()-T).norm();
    if(!ok||err>0.015) printf("BAD ok=%d tx=%.4f ty=%.4f th=%.4f err=%.4f\n",ok,tx,ty,th,err);
  }
}
