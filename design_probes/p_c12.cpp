#include <cstdio>
#include <random>
#include <iostream>
#include "romea_core_common/transform/SmartRotation3D.hpp"
#include "romea_core_common/geometry/Pose3D.hpp"
#include "romea_core_common/math/EulerAngles.hpp"
using namespace romea::core;
typedef Eigen::Matrix<double,6,6> M6; typedef Eigen::Matrix<double,6,1> V6;
Eigen::Matrix3d Rof(const Eigen::Vector3d&a){ return SmartRotation3D(a).R(); }
Eigen::Matrix3d fdR(const Eigen::Vector3d&a,int k){ auto f=[&](double h){ Eigen::Vector3d p=a,m=a; p[k]+=h; m[k]-=h; return Eigen::Matrix3d((Rof(p)-Rof(m))/(2*h)); }; double h=1e-3; return (4*f(h/2)-f(h))/3; }
V6 fpose(const Eigen::Affine3d&A,const V6&x){ Pose3D p; p.position=x.head<3>(); p.orientation=x.tail<3>(); Pose3D r=A*p; V6 y; y.head<3>()=r.position; y.tail<3>()=r.orientation; return y;}
M6 numJ(const Eigen::Affine3d&A,const V6&x){ M6 J; auto f=[&](double h){ M6 Q; for(int k=0;k<6;k++){ V6 a=x,b=x; a[k]+=h; b[k]-=h; V6 d=fpose(A,a)-fpose(A,b); for(int i=3;i<6;i++) d[i]=std::remainder(d[i],2*M_PI); Q.col(k)=d/(2*h);} return Q;}; double h=1e-3; return (4*f(h/2)-f(h))/3; }
// documented defective jacobian
M6 docJ(const Eigen::Affine3d&affine,const Eigen::Vector3d&ori){ SmartRotation3D s(ori); Eigen::Matrix3d R=affine.rotation(); Eigen::Matrix3d rot=R*s.R(); M6 J=M6::Zero(); J.block<3,3>(0,0)=rot;
  double r21=rot(2,1),r22=rot(2,2); double a21=r22/(r21*r21+r22*r22), a22=r21/(r21*r21+r22*r22);
  const Eigen::Matrix3d &DX=s.dRdAngleAroundXAxis(),&DY=s.dRdAngleAroundYAxis(),&DZ=s.dRdAngleAroundZAxis();
  J(3,3)=R.row(2).dot(a21*DX.col(1)-a22*DX.col(2)); J(3,4)=R.row(2).dot(a21*DY.col(1)-a22*DY.col(2)); J(3,5)=R.row(2).dot(a21*DZ.col(1)-a22*DZ.col(2));
  double r20=rot(2,0); double a20=1./(1-r20*r20); J(4,3)=R.row(2).dot(a20*DX.col(0)); J(4,4)=R.row(2).dot(a20*DY.col(0)); J(4,5)=R.row(2).dot(a20*DZ.col(0));
  double r10=R(1,0),r00=R(0,0); double a10=r00/(r00*r00+r10*r10), a00=r10/(r00*r00+r10*r10);
  Eigen::RowVector3d w=-a00*rot.row(0)+a10*rot.row(1); J(5,3)=w.dot(DY.col(0)); J(5,4)=w.dot(DX.col(0)); J(5,5)=w.dot(DZ.col(0)); return J; }
int main(){
  std::mt19937_64 g(5); std::uniform_real_distribution<double> U(-1,1);
  double wsig=0, wtrue=0; 
  for(int it=0;it<20000;it++){ Eigen::Vector3d a(2*M_PI*U(g),(M_PI/2-0.05)*U(g),2*M_PI*U(g)); SmartRotation3D s(a);
    Eigen::Matrix3d Rx=Eigen::AngleAxisd(a[0],Eigen::Vector3d::UnitX()).toRotationMatrix(),Ry=Eigen::AngleAxisd(a[1],Eigen::Vector3d::UnitY()).toRotationMatrix(),Rz=Eigen::AngleAxisd(a[2],Eigen::Vector3d::UnitZ()).toRotationMatrix();
    Eigen::Matrix3d e0=Eigen::Vector3d::UnitX()*Eigen::RowVector3d::UnitX(),e1=Eigen::Vector3d::UnitY()*Eigen::RowVector3d::UnitY(),e2=Eigen::Vector3d::UnitZ()*Eigen::RowVector3d::UnitZ();
    Eigen::Matrix3d sig[3]={Rz*Ry*e0, Rz*e1*Rx, e2*Ry*Rx}; const Eigen::Matrix3d* D[3]={&s.dRdAngleAroundXAxis(),&s.dRdAngleAroundYAxis(),&s.dRdAngleAroundZAxis()};
    for(int k=0;k<3;k++){ Eigen::Matrix3d res=*D[k]-fdR(a,k); wtrue=std::max(wtrue,res.norm()); wsig=std::max(wsig,(res-sig[k]).norm()); } }
  printf("C12a: max |D-fd| = %.3g (nonzero => defect); max |D-fd-signature| = %.3g (zero => signature exact)\n",wtrue,wsig);
  double wdoc=0,wnum=0,wsym=0; int n=0;
  for(int it=0;it<5000;it++){ Eigen::Vector3d ang(2*M_PI*U(g),1.2*U(g),2*M_PI*U(g)), pang(2*M_PI*U(g),1.2*U(g),2*M_PI*U(g)); Eigen::Affine3d A=Eigen::Translation3d(10*U(g),10*U(g),10*U(g))*Eigen::Affine3d(eulerAnglesToRotation3D(ang));
    V6 x; x<<10*U(g),10*U(g),10*U(g),pang[0],pang[1],pang[2]; Pose3D p; p.position=x.head<3>(); p.orientation=pang; M6 L; for(int i=0;i<36;i++) L(i)=U(g); p.covariance=L*L.transpose(); Pose3D r=A*p; if(std::abs(std::remainder(r.orientation[1],2*M_PI))>M_PI/2-0.05) continue; n++;
    M6 Jd=docJ(A,pang); M6 Cd=Jd*p.covariance*Jd.transpose(); wdoc=std::max(wdoc,(Cd-r.covariance).norm()/r.covariance.norm()); M6 Jn=numJ(A,x); M6 Cn=Jn*p.covariance*Jn.transpose(); wnum=std::max(wnum,(Cn-r.covariance).norm()/Cn.norm()); wsym=std::max(wsym,(r.covariance-r.covariance.transpose()).norm()/r.covariance.norm()); }
  printf("C12b: cases=%d rel diff to documented-J propagation %.3g; to true propagation %.3g (large => defect); asym %.3g\n",n,wdoc,wnum,wsym);
}
