#include <cstdio>
#include <iostream>
#include "romea_core_common/containers/Eigen/EigenContainers.hpp"
using namespace romea::core;
int main(){
#ifdef MAT
  VectorOfEigenVector<Eigen::Vector2d> v; v.emplace_back(-1,-2); v.emplace_back(-3,-0.5);
#else
  VectorOfEigenVector<Eigen::Array2d> v; v.emplace_back(-1,-2); v.emplace_back(-3,-0.5);
#endif
  std::cout<<romea::core::min(v).transpose()<<" | "<<romea::core::max(v).transpose()<<" | "<<romea::core::mean(v).transpose()<<"\n";
}
