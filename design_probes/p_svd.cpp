#include <cstdio>
#include <random>
#include "romea_core_common/transform/estimation/FindRigidTransformationBySVD.hpp"
using namespace romea::core;
int main(){
  std::mt19937_64 g(7); std::normal_distribution<double> N(0,1); std::uniform_real_distribution<double> U(-1,1);
  int refl=0, bad=0, tot=0; 
  for(int it=0;it<2000;it++){
    int n=3+it%50;
    PointSet<Eigen::Vector3d> S(n),T(n);
    Eigen::Vector3d ax(N(g),N(g),N(g)); ax.normalize(); double ang=U(g)*M_PI;
    Eigen::Matrix3d R=Eigen::AngleAxisd(ang,ax).toRotationMatrix(); Eigen::Vector3d t(U(g)*10,U(g)*10,U(g)*10);
    // coplanar set: random plane
    Eigen::Vector3d a(N(g),N(g),N(g)),b(N(g),N(g),N(g)),o(N(g),N(g),N(g));
    for(int i=0;i<n;i++){ S[i]=o+a*U(g)*5+b*U(g)*5; T[i]=R*S[i]+t; }
    FindRigidTransformationBySVD<Eigen::Vector3d> f; auto H=f.find(S,T);
    double det=H.block<3,3>(0,0).determinant(); double err=(H.block<3,3>(0,0)-R).norm();
    tot++; if(det<0) refl++; if(err>1e-6) bad++;
  }
  printf("coplanar3d: total %d reflections %d badR %d\n",tot,refl,bad);
  refl=0;bad=0;
  for(int it=0;it<2000;it++){
    int n=4+it%50; PointSet<Eigen::Vector3d> S(n),T(n);
    Eigen::Vector3d ax(N(g),N(g),N(g)); ax.normalize(); double ang=U(g)*M_PI;
    Eigen::Matrix3d R=Eigen::AngleAxisd(ang,ax).toRotationMatrix(); Eigen::Vector3d t(U(g)*10,U(g)*10,U(g)*10);
    for(int i=0;i<n;i++){ S[i]=Eigen::Vector3d(N(g),N(g),N(g))*3; T[i]=R*S[i]+t; }
    FindRigidTransformationBySVD<Eigen::Vector3d> f; auto H=f.find(S,T);
    double det=H.block<3,3>(0,0).determinant(); double err=(H.block<3,3>(0,0)-R).norm()+(H.block<3,1>(0,3)-t).norm();
    if(det<0) refl++; if(err>1e-9) bad++;
  }
  printf("generic3d: reflections %d bad %d\n",refl,bad);
}
