#include <cstdio>
#include <random>
#include <algorithm>
#include "romea_core_common/pointset/algorithms/NormalAndCurvatureEstimation.hpp"
using namespace romea::core;
typedef long double LD;
template<class P,int D> void run(const char*nm){
  using S=typename P::Scalar; std::mt19937_64 g(6); std::uniform_real_distribution<double> U(-1,1); std::normal_distribution<double> G(0,1);
  double wray=0,wplane=0,wcurvplane=0,wrot=0,wunit=0; long pts=0,skipped=0,away=0; double cmin=1,cmax=0;
  for(int it=0;it<300;it++){
    int k=3+(int)(27*(U(g)+1)/2); int n=k+1+(int)(400*(U(g)+1)/2); int mode=it%4; PointSet<P> pts_(n);
    Eigen::Matrix<double,D,1> nrm; for(int i=0;i<D;i++)nrm[i]=G(g); nrm.normalize(); double dist=1+3*std::abs(U(g));
    for(int i=0;i<n;i++){ Eigen::Matrix<double,D,1> q; for(int j=0;j<D;j++) q[j]=5*U(g); if(mode==0){ q-=nrm*(q.dot(nrm)); q+=nrm*dist; } else if(mode==1){ q.normalize(); q*= (2+0.01*G(g)); } else if(mode==2){ q[D-1]=0.3*std::sin(q[0])+2; } else { q-=nrm*(q.dot(nrm)); q+=nrm*(dist+0.01*G(g)); }
      pts_[i]=P::Zero(); for(int j=0;j<D;j++)pts_[i][j]=(S)q[j]; if(P::RowsAtCompileTime>D)pts_[i][D]=1; }
    NormalSet<P> nor(n,P::Zero()); std::vector<S> cu(n),re(n); NormalAndCurvatureEstimation<P> e(k); e.compute(pts_,nor,cu,re);
    // rotated cloud
    Eigen::Matrix<double,D,D> R; if(D==2){ double a=M_PI*U(g); R<<cos(a),-sin(a),sin(a),cos(a);} else { Eigen::Vector3d ax(G(g),G(g),G(g)); ax.normalize(); Eigen::Matrix3d RR=Eigen::AngleAxisd(M_PI*U(g),ax).toRotationMatrix(); for(int i=0;i<D;i++)for(int j=0;j<D;j++)R(i,j)=RR(i,j);} 
    PointSet<P> rp(n); for(int i=0;i<n;i++){ Eigen::Matrix<double,D,1> q; for(int j=0;j<D;j++)q[j]=pts_[i][j]; q=R*q; rp[i]=P::Zero(); for(int j=0;j<D;j++)rp[i][j]=(S)q[j]; if(P::RowsAtCompileTime>D)rp[i][D]=1; }
    NormalSet<P> rn(n,P::Zero()); NormalAndCurvatureEstimation<P> e2(k); e2.compute(rp,rn);
    LD eps=std::numeric_limits<S>::epsilon();
    for(int i=0;i<n;i+=7){
      // brute-force kNN
      std::vector<std::pair<LD,int>> dd(n); for(int j=0;j<n;j++){ LD s=0; for(int c=0;c<D;c++){ LD d=(LD)pts_[j][c]-(LD)pts_[i][c]; s+=d*d;} dd[j]={s,j}; } std::sort(dd.begin(),dd.end());
      if(k<n && (dd[k].first-dd[k-1].first) <= 1e-6L*dd[k].first) {skipped++; continue;}
      Eigen::Matrix<LD,D,1> mean=Eigen::Matrix<LD,D,1>::Zero(); for(int j=0;j<k;j++) for(int c=0;c<D;c++) mean[c]+=pts_[dd[j].second][c]; mean/=k; Eigen::Matrix<LD,D,D> C=Eigen::Matrix<LD,D,D>::Zero(); for(int j=0;j<k;j++){ Eigen::Matrix<LD,D,1> v; for(int c=0;c<D;c++) v[c]=(LD)pts_[dd[j].second][c]-mean[c]; C+=v*v.transpose(); } C/=k;
      Eigen::SelfAdjointEigenSolver<Eigen::Matrix<LD,D,D>> es(C); auto ev=es.eigenvalues(); LD gap=(ev[1]-ev[0])/ev[D-1]; LD tr=ev.sum();
      Eigen::Matrix<LD,D,1> nn; for(int c=0;c<D;c++) nn[c]=nor[i][c]; wunit=std::max(wunit,(double)(fabsl(nn.norm()-1)/eps));
      LD cur=cu[i]; cmin=std::min(cmin,(double)cur); cmax=std::max(cmax,(double)cur);
      if(gap<1e-6L){skipped++; continue;} pts++;
      // mean-offset conditioning: |mean|^2/ lam_max
      LD condc=1+mean.squaredNorm()/ev[D-1];
      LD ray=(nn.dot(C*nn)-ev[0])/ev[D-1]; wray=std::max(wray,(double)(ray/(eps*condc/gap))); 
      Eigen::Matrix<LD,D,1> pp; for(int c=0;c<D;c++) pp[c]=pts_[i][c]; LD dot=nn.dot(pp)/pp.norm(); if(dot>1e-6L) away++;
      if(mode==0){ LD ang=sqrtl(std::max((LD)0,1-powl(nn.dot(nrm.template cast<LD>()),2))); wplane=std::max(wplane,(double)(ang/(eps*condc/ gap))); wcurvplane=std::max(wcurvplane,(double)(fabsl(cur)/(eps*condc))); }
      if(fabsl(dot)>1e-3L){ Eigen::Matrix<LD,D,1> rnn; for(int c=0;c<D;c++) rnn[c]=rn[i][c]; Eigen::Matrix<LD,D,1> ex=R.template cast<LD>()*nn; wrot=std::max(wrot,(double)((rnn-ex).norm()/(eps*condc/gap))); }
    }
  }
  printf("%s pts=%ld skipped=%ld away=%ld unit(ulps) %.3g | ratios to eps*cond/gap: rayleigh %.3g plane-angle %.3g rot-equiv %.3g | curv on plane /(eps cond) %.3g | curv range [%.3g,%.3g]\n",nm,pts,skipped,away,wunit,wray,wplane,wrot,wcurvplane,cmin,cmax);
}
int main(){ run<Eigen::Vector2d,2>("c2d"); run<Eigen::Vector3d,3>("c3d"); run<Eigen::Vector2f,2>("c2f"); run<Eigen::Vector3f,3>("c3f"); run<HomogeneousCoordinates3d,3>("h3d"); run<HomogeneousCoordinates2f,2>("h2f"); }
