#include <cstdio>
#include <random>
#include "romea_core_common/transform/estimation/FindRigidTransformationBySVD.hpp"
using namespace romea::core;
typedef long double LD;
template<class P,int D> void run(const char*nm){
  using S=typename P::Scalar; std::mt19937_64 g(12); std::uniform_real_distribution<double> U(-1,1); std::normal_distribution<double> G(0,1);
  double wmap=0,wdet=0,worth=0,wprec=0,wperm=0; long cases=0,refl=0;
  for(int it=0;it<4000;it++){
    int n=3+(int)(250*(U(g)+1)); double spread=std::pow(10.,U(g)); double off=spread*std::pow(10.,2*std::abs(U(g)))*(it%3==0?0:1);
    Eigen::Matrix<LD,D,D> R; if(D==2){ LD a=M_PI*U(g); R<<cosl(a),-sinl(a),sinl(a),cosl(a);} else { Eigen::Vector3d ax(G(g),G(g),G(g)); ax.normalize(); Eigen::Matrix3d RR=Eigen::AngleAxisd(M_PI*U(g),ax).toRotationMatrix(); for(int i=0;i<D;i++)for(int j=0;j<D;j++)R(i,j)=RR(i,j);} 
    Eigen::Matrix<LD,D,1> t,o; for(int i=0;i<D;i++){t[i]=100*U(g); o[i]=G(g);} o*=off/o.norm();
    PointSet<P> Sx(n),T(n); Eigen::Matrix<LD,D,1> mean=Eigen::Matrix<LD,D,1>::Zero(); std::vector<Eigen::Matrix<LD,D,1>> sd(n),td(n);
    for(int i=0;i<n;i++){ Eigen::Matrix<LD,D,1> s; for(int c=0;c<D;c++) s[c]=o[c]+spread*G(g); Sx[i]=P::Zero(); for(int c=0;c<D;c++)Sx[i][c]=(S)s[c]; for(int c=0;c<D;c++) s[c]=Sx[i][c]; Eigen::Matrix<LD,D,1> q=R*s+t; T[i]=P::Zero(); for(int c=0;c<D;c++)T[i][c]=(S)q[c]; if(P::RowsAtCompileTime>D){Sx[i][D]=1;T[i][D]=1;} sd[i]=s; for(int c=0;c<D;c++) td[i][c]=T[i][c]; }
    // second singular value check (non-collinear)
    FindRigidTransformationBySVD<P> f; auto H=f.find(Sx,T); cases++;
    Eigen::Matrix<LD,D,D> Rh=H.template block<D,D>(0,0).template cast<LD>(); Eigen::Matrix<LD,D,1> th=H.template block<D,1>(0,D).template cast<LD>();
    LD det=Rh.determinant(); if(det<0){refl++; continue;}
    LD eps=std::numeric_limits<S>::epsilon(); LD ratio=off/spread; LD mag=off+spread+t.norm(); LD tol=eps*(1+ratio)*(1+ratio);
    worth=std::max(worth,(double)((Rh*Rh.transpose()-Eigen::Matrix<LD,D,D>::Identity()).norm()/eps)); wdet=std::max(wdet,(double)(fabsl(det-1)/eps));
    LD me=0; for(int i=0;i<n;i++) me=std::max(me,(Rh*sd[i]+th-td[i]).norm()); wmap=std::max(wmap,(double)(me/(mag*tol)));
    // permuted correspondences
    std::vector<Correspondence> C(n); std::vector<int> perm(n); for(int i=0;i<n;i++)perm[i]=i; std::shuffle(perm.begin(),perm.end(),g); for(int i=0;i<n;i++) C[i]=Correspondence(perm[i],perm[i]);
    auto H2=f.find(Sx,T,C); wperm=std::max(wperm,(double)((H2-H).template cast<LD>().norm()/(mag*tol)));
    S sc=(S)std::pow(10.,3*U(g)); PreconditionedPointSet<P> ps(Sx,sc),pt(T,sc); auto H3=f.find(ps,pt); wprec=std::max(wprec,(double)((H3-H).template cast<LD>().norm()/(mag*tol)));
  }
  printf("%s cases=%ld refl=%ld | orth %.3g eps det %.3g eps | ratios to eps(1+off/spread)^2*mag: map %.3g perm %.3g precond %.3g\n",nm,cases,refl,worth,wdet,wmap,wperm,wprec);
}
int main(){ run<Eigen::Vector2d,2>("c2d"); run<Eigen::Vector3d,3>("c3d"); run<Eigen::Vector2f,2>("c2f"); run<Eigen::Vector3f,3>("c3f"); run<HomogeneousCoordinates2d,2>("h2d"); run<HomogeneousCoordinates3f,3>("h3f"); }
