#include <cstdio>
#include <random>
#include "romea_core_common/transform/estimation/FindRigidTransformationByLeastSquares.hpp"
using namespace romea::core;
template<class P,int D> void run(const char*nm){
  using S=typename P::Scalar; std::mt19937_64 g(21); std::uniform_real_distribution<double> U(-1,1); std::normal_distribution<double> G(0,1);
  double wgrad=0,wtrans=0,wrot=0,wprec=0,walign=0; int cases=0;
  for(int it=0;it<3000;it++){
    int n=6+(int)(250*(U(g)+1)); PointSet<P> Sx(n),T(n); NormalSet<P> Nn(n);
    Eigen::Matrix<double,D,D> R; Eigen::Matrix<double,D,1> t; double ang=0.1*U(g); if(it%3==0) ang=0;
    if(D==2){ R<<cos(ang),-sin(ang),sin(ang),cos(ang);} else { Eigen::Vector3d ax(G(g),G(g),G(g)); ax.normalize(); Eigen::Matrix3d RR=Eigen::AngleAxisd(ang,ax).toRotationMatrix(); for(int i=0;i<D;i++)for(int j=0;j<D;j++)R(i,j)=RR(i,j);} 
    for(int i=0;i<D;i++) t[i]=3*U(g);
    for(int i=0;i<n;i++){ Eigen::Matrix<double,D,1> s,nn; for(int k=0;k<D;k++){ s[k]=5*U(g); nn[k]=G(g);} nn.normalize(); Eigen::Matrix<double,D,1> q=R*s+t; Sx[i]=P::Zero(); T[i]=P::Zero(); Nn[i]=P::Zero(); for(int k=0;k<D;k++){Sx[i][k]=(S)s[k];T[i][k]=(S)q[k];Nn[i][k]=(S)nn[k];} if(P::RowsAtCompileTime>D){Sx[i][D]=1;T[i][D]=1;} }
    std::vector<Correspondence> C(n); for(int i=0;i<n;i++) C[i]=Correspondence(i,i);
    FindRigidTransformationByLeastSquares<P> f; auto H=f.find(Sx,T,Nn,C);
    auto H2=f.find(Sx,T,Nn); walign=std::max(walign,(double)(H-H2).norm());
    // build J,Y in double
    const int M=(D==2)?3:6; Eigen::MatrixXd J(n,M); Eigen::VectorXd Y(n);
    for(int i=0;i<n;i++){ Eigen::Matrix<double,D,1> s,nn,q; for(int k=0;k<D;k++){s[k]=Sx[i][k];nn[k]=Nn[i][k];q[k]=T[i][k];} for(int k=0;k<D;k++)J(i,k)=nn[k]; if(D==2){ J(i,2)=s[0]*nn[1]-s[1]*nn[0]; } else { J(i,3)=s[1]*nn[2]-s[2]*nn[1]; J(i,4)=s[2]*nn[0]-s[0]*nn[2]; J(i,5)=s[0]*nn[1]-s[1]*nn[0]; } Y(i)=(q-s).dot(nn);} 
    Eigen::VectorXd x(M); if(D==2){ x<<H(0,2),H(1,2),H(1,0);} else { x<<H(0,3),H(1,3),H(2,3),H(2,1),H(0,2),H(1,0);} 
    Eigen::VectorXd grad=J.transpose()*(J*x-Y); double scale=(J.transpose()*J).norm()*x.norm()+(J.transpose()*Y).norm();
    wgrad=std::max(wgrad,grad.norm()/scale);
    if(it%3==0){ double te=0; for(int k=0;k<D;k++) te=std::max(te,std::abs((double)H(k,D)-t[k])); wtrans=std::max(wtrans,te/3.); }
    // preconditioned
    double sc=std::pow(10.,3*U(g)); PreconditionedPointSet<P> ps(Sx,(S)sc),pt(T,(S)sc); FindRigidTransformationByLeastSquares<P> f2; f2.setPreconditioner(ps,pt); auto H3=f2.find(ps,pt,Nn,C); wprec=std::max(wprec,(double)(H3-H).norm()/(double)H.norm());
    cases++;
  }
  printf("%s cases=%d rel grad %.3g trans err (pure transl) %.3g prec diff %.3g aligned diff %.3g\n",nm,cases,wgrad,wtrans,wprec,walign);
}
int main(){ run<Eigen::Vector2d,2>("c2d"); run<Eigen::Vector3d,3>("c3d"); run<HomogeneousCoordinates2d,2>("h2d"); run<HomogeneousCoordinates3d,3>("h3d"); run<Eigen::Vector2f,2>("c2f"); run<Eigen::Vector3f,3>("c3f"); run<HomogeneousCoordinates3f,3>("h3f"); }
