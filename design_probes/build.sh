#!/bin/bash
# usage: build.sh <objdir> <flags...>
set -e
OBJ=$1; shift
mkdir -p $OBJ
ls /repo/src/*/*.cpp /repo/src/*/*/*.cpp | xargs -P16 -I{} bash -c 'f={}; o='$OBJ'/$(echo $f | sed "s#/repo/src/##; s#/#_#g; s#\.cpp#.o#"); g++ -std=c++17 -I/repo/include -I/usr/include/eigen3 '"$*"' -c $f -o $o'
ar rcs $OBJ/libromea.a $OBJ/*.o
