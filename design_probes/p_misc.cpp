#include <cstdio>
#include <random>
#include <deque>
#include <iostream>
#include "romea_core_common/monitoring/RateMonitoring.hpp"
#include "romea_core_common/diagnostic/CheckupRate.hpp"
#include "romea_core_common/diagnostic/CheckupLowerThan.hpp"
#include "romea_core_common/pointset/KdTree.hpp"
#include "romea_core_common/geometry/Pose2D.hpp"
#include "romea_core_common/geometry/Position2D.hpp"
#include "romea_core_common/containers/boundingbox/OrientedBoundingBox.hpp"
using namespace romea::core;
int main(){
  std::mt19937_64 g(9); std::uniform_real_distribution<double> U(0,1);
  // C17 model
  long mism=0, ev=0, tmis=0;
  for(int it=0;it<2000;it++){
    double er=0.5*std::pow(400.,U(g)); size_t W=std::min<size_t>(64,std::max<size_t>(4,(size_t)(2*er)));
    RateMonitoring rm(er); std::deque<long long> per; long long last=0; long long t=(long long)(U(g)*1e9); bool any=false; double mrate=0;
    for(int k=0;k<300;k++){
      if(U(g)<0.7){ long long dt= (long long)std::pow(10., 3+7*U(g)); if(U(g)<0.1) dt=1000; t+=dt; double r=rm.update(Duration(t)); per.push_back(t-last); last=t; any=true; if(per.size()==W+1){ per.pop_front(); long long s=0; for(auto p:per) s+=p; mrate= 1e9/( (double)s/(double)W ); } ev++; if(std::abs(r-mrate)>1e-12*std::max(1.,mrate)) {mism++; if(mism<5) printf("rate mism r=%.17g m=%.17g W=%zu k=%d\n",r,mrate,W,k);} }
      else { long long h=last+(long long)(U(g)*1.2e9) - (U(g)<0.2? (long long)2e8:0); bool to=rm.timeout(Duration(h)); bool mt= any && (h-last)>500000000LL; if(to!=mt) tmis++; if(mt) mrate=0; if(std::abs(rm.getRate()-mrate)>1e-12*std::max(1.,mrate)) mism++; ev++; }
    }
  }
  printf("C17 events=%ld rate mismatches=%ld timeout mismatches=%ld\n",ev,mism,tmis);
  // C08 brute force
  long kd_bad=0,kd_q=0;
  for(int it=0;it<300;it++){ int n=1+(int)(U(g)*(it%10==0?5000:200)); PointSet<Eigen::Vector3f> P(n); int mode=it%4; for(int i=0;i<n;i++){ if(mode==0) P[i]=Eigen::Vector3f(U(g),U(g),U(g))*10; else if(mode==1) P[i]=Eigen::Vector3f((int)(U(g)*4),(int)(U(g)*4),(int)(U(g)*2)); else if(mode==2) P[i]=Eigen::Vector3f(U(g),2*U(g),0.f); else P[i]=Eigen::Vector3f(1.f,2.f,3.f);} 
    KdTree<Eigen::Vector3f> kd(P);
    for(int q=0;q<50;q++){ Eigen::Vector3f Q=Eigen::Vector3f(U(g),U(g),U(g))*(q%5==0?1000.f:10.f); if(q%7==0) Q=P[(int)(U(g)*n)%n]; size_t k=1+(size_t)(U(g)*std::min(n,50)); if(k>(size_t)n)k=n; std::vector<size_t> idx(k); std::vector<float> d(k); kd.findNearestNeighbors(Q,k,idx,d); kd_q++;
      std::vector<double> all(n); for(int i=0;i<n;i++) all[i]=(P[i].cast<double>()-Q.cast<double>()).squaredNorm(); std::vector<double> s=all; std::sort(s.begin(),s.end());
      bool bad=false; for(size_t j=0;j<k;j++){ if(idx[j]>=(size_t)n){bad=true;break;} double tol=8*1.2e-7*std::max(1e-30,all[idx[j]]); if(std::abs(d[j]-all[idx[j]])>tol) bad=true; if(std::abs(all[idx[j]]-s[j])>8*1.2e-7*std::max(1e-30,s[j])) bad=true; if(j&&d[j]<d[j-1]) bad=true; }
      size_t i1; float d1; kd.findNearestNeighbor(Q,i1,d1); if(std::abs(all[i1]-s[0])>8*1.2e-7*std::max(1e-30,s[0])) bad=true;
      if(bad){ kd_bad++; if(kd_bad<4) printf("KD bad n=%d k=%zu mode=%d\n",n,k,mode);} }
  }
  printf("C08 queries=%ld bad=%ld\n",kd_q,kd_bad);
  // C11 ellipse
  double we=0; long nonorder=0; for(int it=0;it<200000;it++){ double a=std::pow(10.,4*U(g)-2), b=a*std::pow(10.,-8*U(g)*(it%3==0)); if(it%11==0) b=0; double th=M_PI*(2*U(g)-1); Eigen::Matrix2d R; R<<cos(th),-sin(th),sin(th),cos(th); Eigen::Matrix2d C=R*Eigen::Vector2d(a*a,b*b).asDiagonal()*R.transpose(); C=(C+C.transpose().eval())/2; double s=0.01+9.99*U(g); Position2D p; p.covariance=C; Ellipse e=uncertaintyEllipse(p,s); double o=e.getOrientation(); Eigen::Matrix2d Ro; Ro<<cos(o),-sin(o),sin(o),cos(o); Eigen::Matrix2d C2=Ro*Eigen::Vector2d(e.getMajorRadius()*e.getMajorRadius(),e.getMinorRadius()*e.getMinorRadius()).asDiagonal()*Ro.transpose()/(s*s); we=std::max(we,(C2-C).norm()/C.norm()); if(!(e.getMajorRadius()>=e.getMinorRadius()&&e.getMinorRadius()>=0)) nonorder++; }
  printf("C11 ellipse worst rel err %.3g nonorder %ld\n",we,nonorder);
  // C20 OBB->AABB
  long obb_bad=0; double slack=0; for(int it=0;it<100000;it++){ Eigen::Vector3d c(U(g)-0.5,U(g)-0.5,U(g)-0.5); c*=100; Eigen::Vector3d h(U(g),U(g),U(g)); if(it%5==0) h[it%3]=0; Eigen::Vector3d ax(U(g)-.5,U(g)-.5,U(g)-.5); ax.normalize(); Eigen::Matrix3d R=Eigen::AngleAxisd(2*M_PI*U(g),ax).toRotationMatrix(); OrientedBoundingBox3d ob(c,h,R); auto ab=ob.toAxisAlignedBoundingBox(); Eigen::Vector3d mx=Eigen::Vector3d::Constant(-1e300); for(int s=0;s<8;s++){ Eigen::Vector3d l((s&1?1:-1)*h[0],(s&2?1:-1)*h[1],(s&4?1:-1)*h[2]); Eigen::Vector3d w=R*l; mx=mx.cwiseMax(w); Eigen::Vector3d pt=c+w; if(!ob.isInside(pt)){} } Eigen::Vector3d he=ab.getHalfWidthExtents(); double d=(he-mx).cwiseAbs().maxCoeff(); slack=std::max(slack,d); if(d>1e-12) obb_bad++; }
  printf("C20 obb->aabb bad %ld worst %.3g\n",obb_bad,slack);
}
